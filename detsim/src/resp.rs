//! Independent RESP2/RESP3 reader and writer. The harness never uses ferrous' codec to judge
//! ferrous' replies.
#![allow(dead_code)]

#[derive(Clone, Debug, PartialEq)]
pub enum R {
    Simple(Vec<u8>),
    Err(Vec<u8>),
    Int(i64),
    Bulk(Vec<u8>),
    Nil,      // $-1
    NilArr,   // *-1
    Arr(Vec<R>),
    // RESP3 (only produced by ferrous for a few types; parsed for completeness)
    Null3,
    Bool(bool),
    Double(Vec<u8>),
    Map(Vec<(R, R)>),
    Set(Vec<R>),
}

#[derive(Debug, PartialEq)]
pub enum ParseErr { Incomplete, Bad(String) }

fn line(b: &[u8], pos: usize) -> Result<(&[u8], usize), ParseErr> {
    let mut i = pos;
    while i + 1 < b.len() {
        if b[i] == b'\r' && b[i + 1] == b'\n' { return Ok((&b[pos..i], i + 2)); }
        i += 1;
    }
    Err(ParseErr::Incomplete)
}
fn int(s: &[u8]) -> Result<i64, ParseErr> {
    std::str::from_utf8(s).ok().and_then(|x| x.parse::<i64>().ok()).ok_or_else(|| ParseErr::Bad(format!("bad integer {:?}", escape(s))))
}

/// Parse one reply frame from `b`; returns the frame and the number of bytes consumed.
pub fn parse(b: &[u8]) -> Result<(R, usize), ParseErr> { parse_at(b, 0, 0) }

fn parse_at(b: &[u8], pos: usize, depth: usize) -> Result<(R, usize), ParseErr> {
    if depth > 64 { return Err(ParseErr::Bad("nesting too deep".into())); }
    if pos >= b.len() { return Err(ParseErr::Incomplete); }
    let t = b[pos];
    let (l, mut p) = line(b, pos + 1)?;
    match t {
        b'+' => Ok((R::Simple(l.to_vec()), p)),
        b'-' => Ok((R::Err(l.to_vec()), p)),
        b':' => Ok((R::Int(int(l)?), p)),
        b'_' => Ok((R::Null3, p)),
        b'#' => match l { b"t" => Ok((R::Bool(true), p)), b"f" => Ok((R::Bool(false), p)), _ => Err(ParseErr::Bad("bad boolean".into())) },
        b',' => Ok((R::Double(l.to_vec()), p)),
        b'$' => {
            let n = int(l)?;
            if n == -1 { return Ok((R::Nil, p)); }
            if n < 0 { return Err(ParseErr::Bad("negative bulk length".into())); }
            let n = n as usize;
            if b.len() < p + n + 2 { return Err(ParseErr::Incomplete); }
            if &b[p + n..p + n + 2] != b"\r\n" { return Err(ParseErr::Bad("bulk not terminated by CRLF".into())); }
            Ok((R::Bulk(b[p..p + n].to_vec()), p + n + 2))
        }
        b'*' | b'~' => {
            let n = int(l)?;
            if n == -1 && t == b'*' { return Ok((R::NilArr, p)); }
            if n < 0 { return Err(ParseErr::Bad("negative array length".into())); }
            let mut v = Vec::new();
            for _ in 0..n {
                let (e, np) = parse_at(b, p, depth + 1)?;
                v.push(e); p = np;
            }
            Ok((if t == b'*' { R::Arr(v) } else { R::Set(v) }, p))
        }
        b'%' => {
            let n = int(l)?;
            if n < 0 { return Err(ParseErr::Bad("negative map length".into())); }
            let mut v = Vec::new();
            for _ in 0..n {
                let (k, np) = parse_at(b, p, depth + 1)?;
                let (val, np2) = parse_at(b, np, depth + 1)?;
                v.push((k, val)); p = np2;
            }
            Ok((R::Map(v), p))
        }
        _ => Err(ParseErr::Bad(format!("bad type byte 0x{:02x}", t))),
    }
}

/// Encode a command as an array of bulk strings.
pub fn encode_cmd(args: &[Vec<u8>]) -> Vec<u8> {
    let mut out = Vec::new();
    out.extend_from_slice(format!("*{}\r\n", args.len()).as_bytes());
    for a in args {
        out.extend_from_slice(format!("${}\r\n", a.len()).as_bytes());
        out.extend_from_slice(a);
        out.extend_from_slice(b"\r\n");
    }
    out
}

pub fn encode(r: &R, out: &mut Vec<u8>) {
    match r {
        R::Simple(s) => { out.push(b'+'); out.extend_from_slice(s); out.extend_from_slice(b"\r\n"); }
        R::Err(s) => { out.push(b'-'); out.extend_from_slice(s); out.extend_from_slice(b"\r\n"); }
        R::Int(i) => out.extend_from_slice(format!(":{}\r\n", i).as_bytes()),
        R::Bulk(b) => { out.extend_from_slice(format!("${}\r\n", b.len()).as_bytes()); out.extend_from_slice(b); out.extend_from_slice(b"\r\n"); }
        R::Nil => out.extend_from_slice(b"$-1\r\n"),
        R::NilArr => out.extend_from_slice(b"*-1\r\n"),
        R::Arr(v) => { out.extend_from_slice(format!("*{}\r\n", v.len()).as_bytes()); for e in v { encode(e, out); } }
        R::Null3 => out.extend_from_slice(b"_\r\n"),
        R::Bool(b) => out.extend_from_slice(if *b { b"#t\r\n" } else { b"#f\r\n" }),
        R::Double(d) => { out.push(b','); out.extend_from_slice(d); out.extend_from_slice(b"\r\n"); }
        R::Map(v) => { out.extend_from_slice(format!("%{}\r\n", v.len()).as_bytes()); for (k, x) in v { encode(k, out); encode(x, out); } }
        R::Set(v) => { out.extend_from_slice(format!("~{}\r\n", v.len()).as_bytes()); for e in v { encode(e, out); } }
    }
}

pub fn escape(b: &[u8]) -> String {
    let mut s = String::new();
    for &c in b.iter().take(200) {
        match c {
            b'\r' => s.push_str("\\r"),
            b'\n' => s.push_str("\\n"),
            b'\\' => s.push_str("\\\\"),
            b'"' => s.push_str("\\\""),
            0x20..=0x7e => s.push(c as char),
            _ => s.push_str(&format!("\\x{:02x}", c)),
        }
    }
    if b.len() > 200 { s.push_str(&format!("...(+{}B)", b.len() - 200)); }
    s
}

impl R {
    pub fn is_err(&self) -> bool { matches!(self, R::Err(_)) }
    pub fn ok() -> R { R::Simple(b"OK".to_vec()) }
    pub fn bulk(b: &[u8]) -> R { R::Bulk(b.to_vec()) }
    pub fn short(&self) -> String {
        match self {
            R::Simple(s) => format!("+{}", escape(s)),
            R::Err(s) => format!("-{}", escape(s)),
            R::Int(i) => format!(":{}", i),
            R::Bulk(b) => format!("\"{}\"", escape(b)),
            R::Nil => "nil".into(),
            R::NilArr => "nil-array".into(),
            R::Arr(v) => { let mut s = String::from("["); for (i, e) in v.iter().enumerate() { if i > 0 { s.push_str(", "); } if i >= 12 { s.push_str(&format!("...(+{})", v.len() - 12)); break; } s.push_str(&e.short()); } s.push(']'); s }
            R::Null3 => "_".into(),
            R::Bool(b) => format!("#{}", b),
            R::Double(d) => format!(",{}", escape(d)),
            R::Map(v) => format!("map({})", v.len()),
            R::Set(v) => format!("set({})", v.len()),
        }
    }
    /// abstract kind used in violation classes
    pub fn kind(&self) -> &'static str {
        match self {
            R::Simple(_) => "status", R::Err(_) => "error", R::Int(_) => "int", R::Bulk(_) => "bulk", R::Nil => "nil",
            R::NilArr => "nilarr", R::Arr(v) => if v.is_empty() { "emptyarr" } else { "arr" }, R::Null3 => "null3", R::Bool(_) => "bool",
            R::Double(_) => "double", R::Map(_) => "map", R::Set(_) => "set",
        }
    }
}
