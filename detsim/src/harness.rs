//! Shared execution helpers for all checks: a synchronous/asynchronous RESP client layer over the
//! simulator, violation records, outcome record.
#![allow(dead_code)]

use crate::resp::{self, ParseErr, R};
use crate::scenario::*;
use crate::sim::*;
use crate::world::{self, g};
use serde::{Deserialize, Serialize};
use std::collections::{BTreeMap, VecDeque};

#[derive(Clone, Debug, Serialize, Deserialize)]
pub struct Violation {
    pub class: String,
    pub detail: String,
    pub step: usize,
}

#[derive(Clone, Debug, Serialize, Deserialize, Default)]
pub struct Outcome {
    /// "ok" | "violation" | "harness" | "died"
    pub verdict: String,
    #[serde(default)]
    pub violations: Vec<Violation>,
    #[serde(default)]
    pub counters: BTreeMap<String, u64>,
    #[serde(default)]
    pub hash: u64,
    #[serde(default)]
    pub sched_hash: u64,
    #[serde(default)]
    pub state_hashes: Vec<u64>,
    #[serde(default)]
    pub sim_ns: u64,
    #[serde(default)]
    pub note: String,
    #[serde(default)]
    pub seed: u64,
    #[serde(default)]
    pub transcript: Vec<String>,
}

pub struct ClientState {
    pub replies: VecDeque<R>,
    pub proto_err: Option<String>,
    /// bytes written so far (request stream offset)
    pub tx: u64,
    pub pending_tx: VecDeque<u8>,
    pub n_replies: u64,
}

pub struct H {
    pub sim: Sim,
    pub inst: usize,
    pub cs: Vec<ClientState>,
    /// scenario client number -> sim client index
    pub cmap: BTreeMap<usize, usize>,
    pub step_no: usize,
    pub violations: Vec<Violation>,
    pub counters: BTreeMap<String, u64>,
    pub dead: Option<TurnOutcome>,
    pub transcript: Vec<String>,
    pub keep_transcript: bool,
    pub state_hashes: Vec<u64>,
    /// slow reader: read at most this many bytes per client per turn
    pub read_limit: Option<usize>,
}

pub struct CmdResult {
    pub reply: Option<R>,
    /// virtual monotonic time at which the server consumed the last byte of the request
    pub exec_mono: Option<u64>,
    pub turns: u32,
}

impl H {
    pub fn new(sc: &Scenario) -> H {
        let sim = Sim::new(sc.seed, sc.entropy);
        let keep = std::env::var("DETSIM_TRANSCRIPT").is_ok();
        if keep { g().log_text = std::env::var("DETSIM_EVENTLOG").is_ok(); }
        H { sim, inst: 0, cs: Vec::new(), cmap: BTreeMap::new(), step_no: 0, violations: Vec::new(), counters: BTreeMap::new(), dead: None,
            transcript: Vec::new(), keep_transcript: keep, state_hashes: Vec::new(), read_limit: None }
    }
    pub fn boot(&mut self, cfg: &ServerCfg, tag: &str) -> Result<usize, String> {
        let dir = format!("{}/{}", self.sim.base_dir, tag);
        let i = self.sim.boot(cfg, &dir)?;
        Ok(i)
    }
    pub fn count(&mut self, k: &str, n: u64) { *self.counters.entry(k.to_string()).or_insert(0) += n; }
    pub fn note(&mut self, s: String) { if self.keep_transcript { self.transcript.push(format!("[{}] {}", self.step_no, s)); } }
    pub fn violate(&mut self, class: String, detail: String) {
        if self.keep_transcript { self.transcript.push(format!("[{}] VIOLATION {} :: {}", self.step_no, class, detail)); }
        if self.violations.len() < 64 && !self.violations.iter().any(|v| v.class == class) {
            self.violations.push(Violation { class, detail, step: self.step_no });
        }
    }

    pub fn connect(&mut self, c: usize, inst: usize, buf: usize) -> usize {
        let idx = self.sim.connect_buf(inst, buf);
        while self.cs.len() <= idx { self.cs.push(ClientState { replies: VecDeque::new(), proto_err: None, tx: 0, pending_tx: VecDeque::new(), n_replies: 0 }); }
        self.cmap.insert(c, idx);
        idx
    }
    pub fn cl(&self, c: usize) -> Option<usize> { self.cmap.get(&c).copied() }

    /// One server turn, then drain every client socket and parse complete reply frames.
    pub fn turn(&mut self) -> TurnOutcome {
        if let Some(d) = self.dead { return d; }
        let o = self.sim.turn(self.inst);
        match o { TurnOutcome::Turn { .. } => {} other => { self.dead = Some(other); } }
        self.pump();
        o
    }
    pub fn turn_of(&mut self, inst: usize) -> TurnOutcome {
        let o = self.sim.turn(inst);
        self.pump();
        o
    }
    pub fn pump(&mut self) {
        for i in 0..self.sim.clients.len() {
            if i >= self.cs.len() { break; }
            // flush client-side pending request bytes first (socket buffer was full)
            if !self.cs[i].pending_tx.is_empty() {
                let v: Vec<u8> = self.cs[i].pending_tx.iter().copied().collect();
                let n = self.sim.write(i, &v);
                self.cs[i].pending_tx.drain(..n);
            }
            match self.read_limit { Some(n) => { self.sim.read_some(i, n); } None => { self.sim.read(i); } }
            self.parse_rx(i);
        }
    }
    pub fn parse_rx(&mut self, i: usize) {
        loop {
            if self.cs[i].proto_err.is_some() { return; }
            let rx = &self.sim.clients[i].rx;
            if rx.is_empty() { return; }
            match resp::parse(rx) {
                Ok((r, n)) => { self.sim.clients[i].rx.drain(..n); self.cs[i].replies.push_back(r); self.cs[i].n_replies += 1; }
                Err(ParseErr::Incomplete) => return,
                Err(ParseErr::Bad(e)) => { self.cs[i].proto_err = Some(format!("{} at {:?}", e, resp::escape(&rx[..rx.len().min(48)]))); return; }
            }
        }
    }

    /// Write request bytes in the given segmentation: after every segment but the last, one server turn.
    pub fn send_bytes(&mut self, i: usize, data: &[u8], split: &[u32]) {
        let mut pos = 0usize;
        for &s in split {
            let s = s as usize;
            if s == 0 || pos + s >= data.len() { continue; }
            self.write_all(i, &data[pos..pos + s]);
            pos += s;
            self.turn();
        }
        self.write_all(i, &data[pos..]);
    }
    fn write_all(&mut self, i: usize, data: &[u8]) {
        self.cs[i].tx += data.len() as u64;
        if !self.cs[i].pending_tx.is_empty() { self.cs[i].pending_tx.extend(data.iter().copied()); return; }
        let n = self.sim.write(i, data);
        if n < data.len() { self.cs[i].pending_tx.extend(data[n..].iter().copied()); }
    }

    pub fn exec_time(&self, i: usize, upto: u64) -> Option<u64> {
        let conn = self.sim.clients[i].conn;
        g().conns[conn].recvs.iter().find(|r| r.upto >= upto).map(|r| r.mono)
    }

    /// Synchronous command on sim client `i`.
    pub fn cmd(&mut self, i: usize, args: &[Vec<u8>], split: &[u32]) -> CmdResult {
        let data = resp::encode_cmd(args);
        let turns = 6 + (data.len() / 4096) as u32;
        self.cmd_raw(i, &data, split, turns)
    }
    pub fn cmd_raw(&mut self, i: usize, data: &[u8], split: &[u32], max_turns: u32) -> CmdResult {
        let before = self.cs[i].n_replies;
        self.send_bytes(i, data, split);
        let end = self.cs[i].tx;
        let mut turns = 0;
        while self.cs[i].n_replies == before && turns < max_turns {
            if self.dead.is_some() { break; }
            self.turn();
            turns += 1;
            if self.sim.clients[i].eof && self.cs[i].n_replies == before { self.pump(); break; }
        }
        let reply = if self.cs[i].n_replies > before { self.cs[i].replies.pop_front() } else { None };
        CmdResult { reply, exec_mono: self.exec_time(i, end), turns }
    }
    pub fn cmd_s(&mut self, i: usize, args: &[&str]) -> Option<R> {
        let v: Vec<Vec<u8>> = args.iter().map(|s| s.as_bytes().to_vec()).collect();
        self.cmd(i, &v, &[]).reply
    }

    /// Liveness / panic / exit facts shared by all checks (the C06 core, cheap enough everywhere).
    pub fn health_violations(&mut self, prop: &str) {
        let w = g();
        let panics: Vec<(usize, String)> = w.panics.clone();
        for (t, msg) in panics {
            let kind = format!("{:?}", w.threads[t].kind);
            let loc = panic_location(&msg);
            self.violate(format!("{}/panic/{}/{}", prop, kind, loc), format!("thread {} ({}) panicked: {}", t, kind, msg));
        }
        let exits: Vec<(usize, i32)> = w.proc_exits.clone();
        for (inst, code) in exits { self.violate(format!("{}/process-exit/{}", prop, code), format!("instance {} called exit({})", inst, code)); }
        if let Some(d) = self.dead {
            match d {
                TurnOutcome::ServerExited => { if w.panics.is_empty() { self.violate(format!("{}/server-loop-ended", prop), "Server::run returned".into()); } }
                TurnOutcome::Deadlock => self.violate(format!("{}/deadlock", prop), "every thread of the instance is blocked".into()),
                TurnOutcome::Hang => self.violate(format!("{}/hang", prop), "a thread did not reach a scheduling point within the watchdog".into()),
                _ => {}
            }
        }
    }

    pub fn finish(mut self, seed: u64) -> Outcome {
        let w = g();
        let mut counters = std::mem::take(&mut self.counters);
        counters.insert("turns".into(), self.sim.turns_total);
        counters.insert("quanta".into(), self.sim.quanta);
        counters.insert("switches".into(), w.switches);
        counters.insert("io_recv".into(), w.n_recv);
        counters.insert("io_send".into(), w.n_send);
        counters.insert("io_disk".into(), w.n_disk);
        counters.insert("shard_yields".into(), w.site_hits[ferrous::verif::site::SHARD as usize]);
        counters.insert("sweeper_passes".into(), w.site_hits[ferrous::verif::site::SWEEP_PASS_DONE as usize]);
        for (op, act) in w.faults_fired.iter() {
            let k = format!("fault_{:?}_{}", op, match act { crate::world::Action::Errno(e) => format!("errno{}", e), crate::world::Action::Short(_) => "short".into(), crate::world::Action::CrashBefore => "crash_before".into(), crate::world::Action::CrashAfter(_) => "crash_after".into() });
            *counters.entry(k).or_insert(0) += 1;
        }
        let sim_ns = w.mono - 1_000_000_000_000;
        let verdict = if self.violations.is_empty() { "ok" } else { "violation" };
        let mut transcript = std::mem::take(&mut self.transcript);
        if w.log_text { transcript.extend(w.log.iter().map(|l| format!("  ev: {}", l))); }
        self.sim.cleanup();
        Outcome { verdict: verdict.into(), violations: self.violations, counters, hash: w.hash, sched_hash: w.sched_hash, state_hashes: self.state_hashes,
                  sim_ns, note: String::new(), seed, transcript }
    }
}

/// "file:line" of a panic message (class component: stable across seeds).
pub fn panic_location(msg: &str) -> String {
    // format: "panicked at src/foo.rs:12:34:\nmessage"
    if let Some(p) = msg.find("panicked at ") {
        let rest = &msg[p + 12..];
        let end = rest.find(|c: char| c == '\n' || c == ',').unwrap_or(rest.len());
        let loc = rest[..end].trim_end_matches(':');
        // drop the column
        let parts: Vec<&str> = loc.rsplitn(2, ':').collect();
        let l = if parts.len() == 2 { parts[1] } else { loc };
        return l.replace("/repo/", "").replace(' ', "_");
    }
    "unknown".into()
}

pub fn fnv(h: &mut u64, b: &[u8]) { for x in b { *h ^= *x as u64; *h = h.wrapping_mul(0x100000001b3); } }

pub fn args_of(a: &[B]) -> Vec<Vec<u8>> { a.iter().map(|x| x.0.clone()).collect() }
pub fn show_cmd(a: &[Vec<u8>]) -> String { a.iter().map(|x| resp::escape(x)).collect::<Vec<_>>().join(" ") }

#[allow(unused)]
pub fn _touch() { let _ = world::active(); }
