mod raw;
mod world;
mod shim;
mod resp;
mod sim;
mod scenario;
mod harness;
mod driver;
mod checks;
mod model;

use checks::Tier;

fn disable_aslr_and_reexec() {
    // pointer-ordered code paths replay identically only with a fixed address-space layout
    unsafe {
        let cur = libc::personality(0xffffffff);
        if cur >= 0 && (cur & libc::ADDR_NO_RANDOMIZE) == 0 && std::env::var("DETSIM_REEXEC").is_err() {
            libc::personality((cur | libc::ADDR_NO_RANDOMIZE) as libc::c_ulong);
            std::env::set_var("DETSIM_REEXEC", "1");
            let exe = std::ffi::CString::new(std::env::current_exe().unwrap().to_str().unwrap()).unwrap();
            let args: Vec<std::ffi::CString> = std::env::args().map(|a| std::ffi::CString::new(a).unwrap()).collect();
            let mut argv: Vec<*const libc::c_char> = args.iter().map(|a| a.as_ptr()).collect();
            argv.push(std::ptr::null());
            libc::execv(exe.as_ptr(), argv.as_ptr());
        }
    }
}

fn main() {
    let args: Vec<String> = std::env::args().collect();
    let cmd = args.get(1).map(|s| s.as_str()).unwrap_or("");
    let code = match cmd {
        "zygote" => { disable_aslr_and_reexec(); driver::zygote_main(&args[2]) }
        "check" => {
            let tier = if args.get(3).map(|s| s.as_str()) == Some("thorough") { Tier::Thorough } else { Tier::Quick };
            driver::run_check(&args[2], tier)
        }
        "replay" => driver::run_replay(&args[2]),
        "gen" => {
            // print the scenario of run index i of a check (debugging aid)
            let def = checks::find(&args[2]).expect("check");
            let idx: u64 = args[3].parse().unwrap();
            let base: u64 = std::env::var("VERIF_SEED").ok().and_then(|x| x.parse().ok()).unwrap_or(1);
            let sc = (def.gen)(scenario::derive_seed(base, def.id, idx), idx, Tier::Quick);
            println!("{}", serde_json::to_string_pretty(&sc).unwrap());
            0
        }
        "list" => { for d in checks::all() { println!("{}", d.id); } 0 }
        _ => { eprintln!("usage: detsim check <ID> quick|thorough | replay <file> | gen <ID> <idx> | list"); 2 }
    };
    std::process::exit(code);
}
