mod raw;
mod world;
mod shim;
mod resp;
mod sim;

use resp::R;
use sim::*;

fn smoke(seed: u64) -> u64 {
    let mut s = Sim::new(seed, seed);
    let dir = s.new_dir("a");
    let inst = s.boot(&ServerCfg::default(), &dir).expect("boot");
    let c = s.connect(inst);
    let mut replies = Vec::new();
    let cmds: Vec<Vec<&str>> = vec![vec!["PING"], vec!["SET", "k", "v", "PX", "1500"], vec!["GET", "k"], vec!["SADD", "s", "a", "b", "c", "d"], vec!["SPOP", "s"], vec!["SMEMBERS", "s"], vec!["PTTL", "k"]];
    for cmd in &cmds {
        let args: Vec<Vec<u8>> = cmd.iter().map(|x| x.as_bytes().to_vec()).collect();
        let b = resp::encode_cmd(&args);
        let half = b.len() / 2;
        s.write(c, &b[..half]);
        s.turn(inst);
        s.write(c, &b[half..]);
        for _ in 0..3 { s.turn(inst); s.read(c); if !s.clients[c].rx.is_empty() { break; } }
        let (r, n) = resp::parse(&s.clients[c].rx).expect("reply");
        s.clients[c].rx.drain(..n);
        replies.push(r);
        s.advance(300_000_000);
    }
    s.advance(2_000_000_000);
    let args: Vec<Vec<u8>> = vec![b"GET".to_vec(), b"k".to_vec()];
    s.write(c, &resp::encode_cmd(&args));
    s.turn(inst); s.read(c);
    let (r, _) = resp::parse(&s.clients[c].rx).expect("reply");
    replies.push(r);
    if seed == 1 { for r in &replies { raw::write_all(1, format!("{}\n", r.short()).as_bytes()); } }
    let _ = R::Nil;
    s.cleanup();
    world::g().hash
}

fn main() {
    let args: Vec<String> = std::env::args().collect();
    if args.len() >= 2 && args[1] == "smoke" {
        let seed: u64 = args.get(2).and_then(|x| x.parse().ok()).unwrap_or(1);
        let h = smoke(seed);
        raw::write_all(1, format!("hash {:016x} turns\n", h).as_bytes());
        raw::exit_group(0);
    }
}
