mod raw;
mod world;
mod shim;
mod resp;
mod sim;
mod scenario;
mod harness;
mod driver;
mod checks;
mod model;

use checks::Tier;

// ---------------------------------------------------------------------------------------------
// allocator seam: records the largest single allocation request, refuses absurd ones
pub mod alloc_seam {
    use std::alloc::{GlobalAlloc, Layout, System};
    use std::sync::atomic::{AtomicI32, AtomicUsize, Ordering};
    pub static MAX_ALLOC: AtomicUsize = AtomicUsize::new(0);
    pub static LIMIT: AtomicUsize = AtomicUsize::new(16 << 30);
    pub static RESULT_FD: AtomicI32 = AtomicI32::new(-1);
    pub static REFUSE_CLASS: AtomicUsize = AtomicUsize::new(0);
    static mut CONTEXT: [u8; 24] = [0; 24];
    static mut CHECK: [u8; 3] = *b"C06";
    pub fn set_check(id: &str) { let b = id.as_bytes(); if b.len() >= 3 { unsafe { CHECK = [b[0], b[1], b[2]]; } } }
    static CONTEXT_LEN: AtomicUsize = AtomicUsize::new(0);
    /// what the harness was feeding the server (for attributing a refused allocation)
    pub fn set_context(s: &str) {
        let b = s.as_bytes();
        let n = b.len().min(24);
        unsafe { for i in 0..n { CONTEXT[i] = if b[i].is_ascii_alphanumeric() || b[i] == b':' { b[i] } else { b'_' }; } }
        CONTEXT_LEN.store(n, Ordering::Relaxed);
    }
    pub struct Counting;
    #[inline]
    fn track(size: usize) -> bool {
        if size > MAX_ALLOC.load(Ordering::Relaxed) { MAX_ALLOC.fetch_max(size, Ordering::Relaxed); }
        if size > LIMIT.load(Ordering::Relaxed) { refuse(size); return false; }
        true
    }
    /// An allocation beyond the limit: report it as the run's outcome (no heap use here) and end the process.
    fn refuse(size: usize) {
        let fd = RESULT_FD.load(Ordering::Relaxed);
        if fd >= 0 {
            let mut buf = [0u8; 384];
            let head00 = b"{\"verdict\":\"violation\",\"violations\":[{\"class\":\"";
            let head0 = b"/alloc-bomb/refused/";
            let head = b"\",\"detail\":\"a single allocation request of ";
            let tail = b" bytes (sized by client- or file-declared length) was refused by the allocator seam\",\"step\":0}]}";
            let mut n = 0;
            for b in head00 { buf[n] = *b; n += 1; }
            unsafe { for i in 0..3 { buf[n] = CHECK[i]; n += 1; } }
            for b in head0 { buf[n] = *b; n += 1; }
            let cl = CONTEXT_LEN.load(Ordering::Relaxed);
            unsafe { for i in 0..cl { buf[n] = CONTEXT[i]; n += 1; } }
            for b in head { buf[n] = *b; n += 1; }
            let mut digits = [0u8; 24]; let mut d = 0; let mut v = size;
            if v == 0 { digits[0] = b'0'; d = 1; }
            while v > 0 { digits[d] = b'0' + (v % 10) as u8; v /= 10; d += 1; }
            for i in (0..d).rev() { buf[n] = digits[i]; n += 1; }
            for b in tail { buf[n] = *b; n += 1; }
            crate::raw::write_all(fd, &buf[..n]);
            crate::raw::exit_group(0);
        }
    }
    unsafe impl GlobalAlloc for Counting {
        unsafe fn alloc(&self, l: Layout) -> *mut u8 { if !track(l.size()) { return std::ptr::null_mut(); } System.alloc(l) }
        unsafe fn alloc_zeroed(&self, l: Layout) -> *mut u8 { if !track(l.size()) { return std::ptr::null_mut(); } System.alloc_zeroed(l) }
        unsafe fn dealloc(&self, p: *mut u8, l: Layout) { System.dealloc(p, l) }
        unsafe fn realloc(&self, p: *mut u8, l: Layout, new: usize) -> *mut u8 { if !track(new) { return std::ptr::null_mut(); } System.realloc(p, l, new) }
    }
    pub fn reset_max() -> usize { MAX_ALLOC.swap(0, Ordering::Relaxed) }
    pub fn max() -> usize { MAX_ALLOC.load(Ordering::Relaxed) }
}
#[global_allocator]
static GLOBAL: alloc_seam::Counting = alloc_seam::Counting;

fn disable_aslr_and_reexec() {
    // pointer-ordered code paths replay identically only with a fixed address-space layout
    unsafe {
        let cur = libc::personality(0xffffffff);
        if cur >= 0 && (cur & libc::ADDR_NO_RANDOMIZE) == 0 && std::env::var("DETSIM_REEXEC").is_err() {
            libc::personality((cur | libc::ADDR_NO_RANDOMIZE) as libc::c_ulong);
            std::env::set_var("DETSIM_REEXEC", "1");
            let exe = std::ffi::CString::new(std::env::current_exe().unwrap().to_str().unwrap()).unwrap();
            let args: Vec<std::ffi::CString> = std::env::args().map(|a| std::ffi::CString::new(a).unwrap()).collect();
            let mut argv: Vec<*const libc::c_char> = args.iter().map(|a| a.as_ptr()).collect();
            argv.push(std::ptr::null());
            libc::execv(exe.as_ptr(), argv.as_ptr());
        }
    }
}

fn main() {
    let args: Vec<String> = std::env::args().collect();
    let cmd = args.get(1).map(|s| s.as_str()).unwrap_or("");
    let code = match cmd {
        "zygote" => { disable_aslr_and_reexec(); driver::zygote_main(&args[2]) }
        "check" => {
            let tier = if args.get(3).map(|s| s.as_str()) == Some("thorough") { Tier::Thorough } else { Tier::Quick };
            driver::run_check(&args[2], tier)
        }
        "replay" => driver::run_replay(&args[2]),
        "gen" => {
            // print the scenario of run index i of a check (debugging aid)
            let def = checks::find(&args[2]).expect("check");
            let idx: u64 = args[3].parse().unwrap();
            let base: u64 = std::env::var("VERIF_SEED").ok().and_then(|x| x.parse().ok()).unwrap_or(1);
            let sc = (def.gen)(scenario::derive_seed(base, def.id, idx), idx, Tier::Quick);
            println!("{}", serde_json::to_string_pretty(&sc).unwrap());
            0
        }
        "list" => { for d in checks::all() { println!("{}", d.id); } 0 }
        _ => { eprintln!("usage: detsim check <ID> quick|thorough | replay <file> | gen <ID> <idx> | list"); 2 }
    };
    std::process::exit(code);
}
