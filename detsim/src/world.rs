//! Global simulator state ("the world"): thread table, baton, virtual clocks, entropy, fd tables,
//! armed faults, counters, event log. Exactly one thread (the simulator thread or one managed
//! thread) runs at any instant, so the state is a plain `static mut` accessed through `g()`;
//! baton hand-offs go through SeqCst atomics + futex system calls, which order all accesses.
#![allow(static_mut_refs, dead_code)]

use crate::raw;
use std::cell::Cell;
use std::collections::VecDeque;
use std::sync::atomic::{AtomicBool, AtomicU32, Ordering};

pub const MAX_THREADS: usize = 96;
pub const MAX_FD: usize = 4096;
pub const NONE: usize = usize::MAX;
pub const N_SITES: usize = 8;

thread_local! {
    /// index of this thread in the managed-thread table, NONE for the simulator thread
    pub static TID: Cell<usize> = const { Cell::new(NONE) };
}

#[derive(Clone, Copy, Debug, PartialEq)]
pub enum TState {
    Free,
    New,
    Runnable,
    Sleeping { until: u64 },
    Futex { addr: usize, deadline: Option<u64>, seq: u64 },
    Exited,
    /// belongs to a crashed / exited server instance; never scheduled again
    Frozen,
}

#[derive(Clone, Copy, Debug, PartialEq)]
pub enum Reason {
    None,
    Hook { site: u32, a: u64, b: u64 },
    Sleep,
    FutexWait,
    Exit,
    ProcExit { code: i32 },
    Crashed,
}

#[derive(Clone, Copy, Debug, PartialEq)]
pub enum Kind { Server, Sweeper, Monitor, Spawned, Other }

pub struct Th {
    pub park: AtomicU32,
    pub state: TState,
    pub instance: usize,
    pub kind: Kind,
    pub creator: usize,
    pub mask: u32,
    pub budget: i64,
    pub reason: Reason,
    pub futex_ret: i64,
    pub rng: [u64; 4],
    pub panicked: bool,
    pub quanta: u64,
}

#[derive(Clone, Copy, Debug, PartialEq)]
pub enum FdKind { None, Listener, Conn, Disk }

#[derive(Clone, Copy, Debug, PartialEq, Eq, serde::Serialize, serde::Deserialize)]
pub enum FileClass { DumpTmp, Dump, Aof, Other }

#[derive(Clone, Copy, Debug, PartialEq, Eq, serde::Serialize, serde::Deserialize)]
pub enum Op { Recv, Send, Open, Write, Fsync, Rename, Unlink }

#[derive(Clone, Copy, Debug, PartialEq, Eq, serde::Serialize, serde::Deserialize)]
pub enum Action {
    /// fail with this errno, nothing transferred
    Errno(i32),
    /// transfer at most n bytes (short read / write)
    Short(usize),
    /// the server process dies before the operation happens
    CrashBefore,
    /// the first n bytes are transferred, then the server process dies
    CrashAfter(usize),
}

#[derive(Clone, Copy, Debug)]
pub struct Armed {
    /// instance the fault applies to
    pub instance: usize,
    pub op: Op,
    /// connection number (for Recv/Send) or NONE = any
    pub conn: usize,
    /// file class (for disk ops), None = any
    pub class: Option<FileClass>,
    /// fire on the n-th matching operation from now (0 = next)
    pub countdown: u64,
    pub action: Action,
    pub fired: bool,
}

pub struct FdInfo {
    pub kind: FdKind,
    pub instance: usize,
    /// connection number (Conn) within the run
    pub conn: usize,
    pub class: FileClass,
    /// clamp every recv to this many bytes (0 = off)
    pub recv_max: usize,
    pub send_max: usize,
}

#[derive(Clone, Debug)]
pub struct DiskOpRec { pub instance: usize, pub op: Op, pub class: FileClass, pub bytes: usize, pub ok: bool }

#[derive(Clone, Copy, Debug, Default)]
pub struct RecvRec { pub upto: u64, pub mono: u64, pub seq: u64 }

pub struct ConnLog {
    /// cumulative bytes the server has consumed on this connection, with the virtual time of each recv
    pub recvs: Vec<RecvRec>,
    pub consumed: u64,
    pub sent: u64,
    pub server_fd: i32,
}

pub struct World {
    pub active: bool,
    pub threads: Vec<Th>,
    pub current: usize,
    pub sim_park: AtomicU32,
    pub mono: u64,
    pub real_off: i64,
    pub fseq: u64,
    pub entropy_seed: u64,
    pub sim_rng: [u64; 4],
    pub boot_instance: usize,
    pub fds: Vec<FdInfo>,
    pub accept_q: Vec<VecDeque<(i32, usize)>>,
    pub conns: Vec<ConnLog>,
    pub armed: Vec<Armed>,
    pub disk_prefix: Vec<u8>,
    pub disk_log: Vec<DiskOpRec>,
    pub mute: bool,
    pub booting: bool,
    // activity counters
    pub n_accept: u64,
    pub n_recv: u64,
    pub n_send: u64,
    pub n_disk: u64,
    /// virtual time every completed write to a dump / AOF file takes (a slow disk); 0 = none
    pub disk_write_latency_ns: u64,
    /// real time after which a quantum that has not come back is a hang (default 30 s)
    pub watchdog_ns: u64,
    pub site_hits: [u64; N_SITES],
    pub faults_fired: Vec<(Op, Action)>,
    pub panics: Vec<(usize, String)>,
    pub proc_exits: Vec<(usize, i32)>,
    pub forbidden_calls: Vec<String>,
    pub max_alloc: usize,
    pub alloc_limit: usize,
    pub hash: u64,
    pub log: Vec<String>,
    pub log_text: bool,
    pub switches: u64,
    pub sched_hash: u64,
    /// global sequence number of transport events (orders the server's reads across connections)
    pub evseq: u64,
}

static mut WORLD: Option<World> = None;
pub static ACTIVE: AtomicBool = AtomicBool::new(false);

#[inline]
pub fn g() -> &'static mut World { unsafe { WORLD.as_mut().unwrap_unchecked() } }
#[inline]
pub fn active() -> bool { ACTIVE.load(Ordering::Relaxed) }

pub fn splitmix(x: &mut u64) -> u64 {
    *x = x.wrapping_add(0x9E3779B97F4A7C15);
    let mut z = *x;
    z = (z ^ (z >> 30)).wrapping_mul(0xBF58476D1CE4E5B9);
    z = (z ^ (z >> 27)).wrapping_mul(0x94D049BB133111EB);
    z ^ (z >> 31)
}
pub fn xo_seed(seed: u64) -> [u64; 4] {
    let mut s = seed;
    [splitmix(&mut s), splitmix(&mut s), splitmix(&mut s), splitmix(&mut s)]
}
pub fn xo_next(s: &mut [u64; 4]) -> u64 {
    let result = (s[0].wrapping_add(s[3])).rotate_left(23).wrapping_add(s[0]);
    let t = s[1] << 17;
    s[2] ^= s[0]; s[3] ^= s[1]; s[1] ^= s[2]; s[0] ^= s[3];
    s[2] ^= t; s[3] = s[3].rotate_left(45);
    result
}

pub fn init(entropy_seed: u64) {
    unsafe {
        let mut fds = Vec::with_capacity(MAX_FD);
        for _ in 0..MAX_FD {
            fds.push(FdInfo { kind: FdKind::None, instance: 0, conn: NONE, class: FileClass::Other, recv_max: 0, send_max: 0 });
        }
        let mut threads = Vec::with_capacity(MAX_THREADS);
        for _ in 0..MAX_THREADS {
            threads.push(Th { park: AtomicU32::new(0), state: TState::Free, instance: 0, kind: Kind::Other, creator: NONE,
                mask: 0, budget: 0, reason: Reason::None, futex_ret: 0, rng: [0; 4], panicked: false, quanta: 0 });
        }
        WORLD = Some(World {
            active: true, threads, current: NONE, sim_park: AtomicU32::new(0),
            mono: 1_000_000_000_000, real_off: 1_700_000_000_000_000_000 - 1_000_000_000_000,
            fseq: 0, entropy_seed, sim_rng: xo_seed(entropy_seed ^ 0x51ED_270B),
            boot_instance: 0, fds, accept_q: Vec::new(), conns: Vec::new(), armed: Vec::new(),
            disk_prefix: Vec::new(), disk_log: Vec::new(), mute: true, booting: false,
            n_accept: 0, n_recv: 0, n_send: 0, n_disk: 0, disk_write_latency_ns: 0, watchdog_ns: 30_000_000_000, site_hits: [0; N_SITES],
            faults_fired: Vec::new(), panics: Vec::new(), proc_exits: Vec::new(), forbidden_calls: Vec::new(),
            max_alloc: 0, alloc_limit: 1 << 30,
            hash: 0xcbf29ce484222325, log: Vec::new(), log_text: false, switches: 0, sched_hash: 0xcbf29ce484222325, evseq: 0,
        });
    }
    ACTIVE.store(true, Ordering::SeqCst);
}

/// Event log: every event is folded into a running FNV-1a hash; text is kept only when asked.
pub fn log_event(s: &str) {
    let w = g();
    for b in s.as_bytes() { w.hash ^= *b as u64; w.hash = w.hash.wrapping_mul(0x100000001b3); }
    w.hash ^= 0xff; w.hash = w.hash.wrapping_mul(0x100000001b3);
    if w.log_text { w.log.push(s.to_string()); }
}
pub fn log_bytes(tag: &str, b: &[u8]) {
    let w = g();
    for x in tag.as_bytes().iter().chain(b.iter()) { w.hash ^= *x as u64; w.hash = w.hash.wrapping_mul(0x100000001b3); }
    w.hash ^= 0xfe; w.hash = w.hash.wrapping_mul(0x100000001b3);
    if w.log_text { w.log.push(format!("{} {}", tag, crate::resp::escape(b))); }
}

// ---------------------------------------------------------------------------------------------
// baton

fn park_wait(word: &AtomicU32, watchdog: bool) -> bool {
    let start = if watchdog { raw::real_mono_ns() } else { 0 };
    loop {
        if word.swap(0, Ordering::SeqCst) == 1 { return true; }
        raw::futex_wait(word as *const AtomicU32 as *const u32, 0, if watchdog { Some(1_000_000_000) } else { None });
        if watchdog && raw::real_mono_ns() - start > g().watchdog_ns { return false; }
    }
}
fn park_wake(word: &AtomicU32) {
    word.store(1, Ordering::SeqCst);
    raw::futex_wake(word as *const AtomicU32 as *const u32, 1);
}

/// Managed thread: give the baton back to the simulator and wait until it is handed to us again.
pub fn yield_to_sim(idx: usize, reason: Reason) {
    let w = g();
    w.threads[idx].reason = reason;
    w.current = NONE;
    park_wake(&w.sim_park);
    park_wait(&g().threads[idx].park, false);
}

/// Simulator thread: run managed thread `idx` for one quantum. Returns None on watchdog expiry.
pub fn run_thread(idx: usize) -> Option<Reason> {
    let w = g();
    debug_assert!(matches!(w.threads[idx].state, TState::Runnable | TState::New));
    w.threads[idx].state = TState::Runnable;
    w.threads[idx].reason = Reason::None;
    w.threads[idx].quanta += 1;
    w.current = idx;
    w.switches += 1;
    w.sched_hash ^= idx as u64 + 1; w.sched_hash = w.sched_hash.wrapping_mul(0x100000001b3);
    park_wake(&w.threads[idx].park);
    if !park_wait(&g().sim_park, true) { return None; }
    Some(g().threads[idx].reason)
}

pub fn alloc_thread(instance: usize, creator: usize) -> usize {
    let w = g();
    for i in 0..MAX_THREADS {
        if w.threads[i].state == TState::Free {
            let t = &mut w.threads[i];
            t.state = TState::New;
            t.instance = instance;
            t.creator = creator;
            t.kind = Kind::Other;
            t.mask = 0; t.budget = 0; t.reason = Reason::None; t.panicked = false; t.quanta = 0;
            t.rng = xo_seed(w.entropy_seed ^ ((i as u64 + 1) << 32) ^ 0xA5A5);
            t.park.store(0, Ordering::SeqCst);
            return i;
        }
    }
    raw::write_all(2, b"detsim: thread table full\n");
    raw::exit_group(2);
}

/// Called by the trampoline before user code: wait for the first baton.
pub fn thread_first_park(idx: usize) {
    park_wait(&g().threads[idx].park, false);
}

pub fn freeze_instance(instance: usize) {
    let w = g();
    for t in w.threads.iter_mut() {
        if t.instance == instance && !matches!(t.state, TState::Free | TState::Exited) { t.state = TState::Frozen; }
    }
}

/// Advance the monotonic clock to `to` (never backwards) and make due sleepers / futex timeouts runnable.
pub fn set_mono(to: u64) {
    let w = g();
    if to > w.mono { w.mono = to; }
    for t in w.threads.iter_mut() {
        match t.state {
            TState::Sleeping { until } if until <= w.mono => { t.state = TState::Runnable; }
            TState::Futex { deadline: Some(d), .. } if d <= w.mono => { t.state = TState::Runnable; t.futex_ret = -(libc::ETIMEDOUT as i64); }
            _ => {}
        }
    }
}

pub fn futex_wake_emulated(addr: usize, n: i64) -> i64 {
    let w = g();
    let mut woken = 0;
    while woken < n {
        let mut best: Option<(usize, u64)> = None;
        for (i, t) in w.threads.iter().enumerate() {
            if let TState::Futex { addr: a, seq, .. } = t.state {
                if a == addr && best.map_or(true, |(_, s)| seq < s) { best = Some((i, seq)); }
            }
        }
        match best {
            Some((i, _)) => { w.threads[i].state = TState::Runnable; w.threads[i].futex_ret = 0; woken += 1; }
            None => break,
        }
    }
    woken
}

pub fn entropy_fill(buf: &mut [u8]) {
    let idx = TID.with(|t| t.get());
    let w = g();
    let rng = if idx == NONE { &mut w.sim_rng } else { &mut w.threads[idx].rng };
    for chunk in buf.chunks_mut(8) {
        let v = xo_next(rng).to_le_bytes();
        chunk.copy_from_slice(&v[..chunk.len()]);
    }
}

/// Consult the armed faults for an operation; returns the action to apply, if any.
pub fn fault_for(instance: usize, op: Op, conn: usize, class: Option<FileClass>) -> Option<Action> {
    let w = g();
    let mut hit = None;
    for a in w.armed.iter_mut() {
        if a.fired || a.instance != instance || a.op != op { continue; }
        if a.conn != NONE && a.conn != conn { continue; }
        if let (Some(c), Some(fc)) = (a.class, class) { if c != fc { continue; } }
        if a.countdown == 0 {
            if hit.is_none() { a.fired = true; hit = Some(a.action); }
        } else {
            a.countdown -= 1;
        }
    }
    if let Some(act) = hit { w.faults_fired.push((op, act)); }
    hit
}
