//! Scenario = everything that determines one simulated run: server configuration, knobs, and the
//! linear list of simulator steps. Generated from a seed (pure), executed by a worker, shrunk by
//! the minimiser, stored as the replay file.
#![allow(dead_code)]

use crate::sim::ServerCfg;
use crate::world::{Action, FileClass, Op};
use serde::{Deserialize, Deserializer, Serialize, Serializer};
use std::collections::BTreeMap;

/// Byte string, serialised as an escaped ASCII string (\xNN for everything outside printable ASCII).
#[derive(Clone, PartialEq, Eq, PartialOrd, Ord, Hash, Default)]
pub struct B(pub Vec<u8>);

impl std::fmt::Debug for B {
    fn fmt(&self, f: &mut std::fmt::Formatter<'_>) -> std::fmt::Result { write!(f, "\"{}\"", esc(&self.0)) }
}
pub fn esc(b: &[u8]) -> String {
    let mut s = String::with_capacity(b.len());
    for &c in b {
        match c {
            b'\\' => s.push_str("\\\\"),
            0x20..=0x7e => s.push(c as char),
            _ => s.push_str(&format!("\\x{:02x}", c)),
        }
    }
    s
}
pub fn unesc(s: &str) -> Vec<u8> {
    let b = s.as_bytes();
    let mut out = Vec::with_capacity(b.len());
    let mut i = 0;
    while i < b.len() {
        if b[i] == b'\\' && i + 1 < b.len() {
            if b[i + 1] == b'\\' { out.push(b'\\'); i += 2; continue; }
            if b[i + 1] == b'x' && i + 3 < b.len() {
                if let Ok(v) = u8::from_str_radix(&s[i + 2..i + 4], 16) { out.push(v); i += 4; continue; }
            }
        }
        out.push(b[i]); i += 1;
    }
    out
}
impl Serialize for B {
    fn serialize<S: Serializer>(&self, s: S) -> Result<S::Ok, S::Error> {
        // long runs of one byte are compressed as {"rep": byte, "n": count} by callers that need it; plain string here
        s.serialize_str(&esc(&self.0))
    }
}
impl<'de> Deserialize<'de> for B {
    fn deserialize<D: Deserializer<'de>>(d: D) -> Result<B, D::Error> {
        let s = String::deserialize(d)?;
        Ok(B(unesc(&s)))
    }
}
pub fn b(s: &str) -> B { B(s.as_bytes().to_vec()) }
pub fn bv(v: &[u8]) -> B { B(v.to_vec()) }

fn is_zero(x: &usize) -> bool { *x == 0 }
fn is_false(x: &bool) -> bool { !*x }

#[derive(Clone, Debug, Serialize, Deserialize, PartialEq)]
#[serde(tag = "op")]
pub enum Step {
    /// open client connection number `c` (to instance `inst`)
    Connect { c: usize, #[serde(default, skip_serializing_if = "is_zero")] inst: usize, #[serde(default, skip_serializing_if = "is_zero")] buf: usize },
    /// send a command and run the server until its reply arrived (synchronous client)
    Cmd { c: usize, a: Vec<B>, #[serde(default, skip_serializing_if = "Vec::is_empty")] split: Vec<u32> },
    /// send a command without waiting
    Send { c: usize, a: Vec<B>, #[serde(default, skip_serializing_if = "Vec::is_empty")] split: Vec<u32> },
    /// send raw bytes without waiting
    Raw { c: usize, data: B, #[serde(default, skip_serializing_if = "Vec::is_empty")] split: Vec<u32> },
    /// run n server loop turns (reading clients after each)
    Turns { n: u32 },
    /// advance both clocks
    Adv { ns: u64 },
    /// step the realtime clock only
    RealStep { ns: i64 },
    Close { c: usize, #[serde(default, skip_serializing_if = "is_false")] half: bool },
    Arm { fop: Op, #[serde(default)] conn: Option<usize>, #[serde(default)] class: Option<FileClass>, nth: u64, action: Action, #[serde(default, skip_serializing_if = "is_zero")] inst: usize },
    /// check-specific control step
    Ctl { name: String, #[serde(default)] n: i64, #[serde(default, skip_serializing_if = "Vec::is_empty")] a: Vec<B> },
}

#[derive(Clone, Debug, Serialize, Deserialize, PartialEq)]
pub struct Scenario {
    pub check: String,
    pub seed: u64,
    /// entropy seed (hash iteration orders, random picks, skip-list towers)
    pub entropy: u64,
    #[serde(default)]
    pub cfg: ServerCfg,
    #[serde(default)]
    pub knobs: BTreeMap<String, i64>,
    pub steps: Vec<Step>,
    #[serde(default, skip_serializing_if = "Option::is_none")]
    pub expect_class: Option<String>,
    #[serde(default, skip_serializing_if = "Option::is_none")]
    pub note: Option<String>,
}

impl Scenario {
    pub fn new(check: &str, seed: u64) -> Scenario {
        Scenario { check: check.into(), seed, entropy: seed, cfg: ServerCfg::default(), knobs: BTreeMap::new(), steps: vec![], expect_class: None, note: None }
    }
    pub fn knob(&self, k: &str, default: i64) -> i64 { self.knobs.get(k).copied().unwrap_or(default) }
}

// ---------------------------------------------------------------------------------------------
// generation-side PRNG (pure, never touches the simulator)

pub struct Rng(pub [u64; 4]);
impl Rng {
    pub fn new(seed: u64) -> Rng { Rng(crate::world::xo_seed(seed)) }
    pub fn next(&mut self) -> u64 { crate::world::xo_next(&mut self.0) }
    pub fn below(&mut self, n: u64) -> u64 { if n == 0 { 0 } else { self.next() % n } }
    pub fn range(&mut self, lo: i64, hi: i64) -> i64 { lo + self.below((hi - lo + 1) as u64) as i64 }
    pub fn chance(&mut self, num: u64, den: u64) -> bool { self.below(den) < num }
    pub fn pick<'a, T>(&mut self, v: &'a [T]) -> &'a T { &v[self.below(v.len() as u64) as usize] }
    pub fn weighted(&mut self, w: &[u32]) -> usize {
        let total: u64 = w.iter().map(|x| *x as u64).sum();
        let mut x = self.below(total.max(1));
        for (i, wi) in w.iter().enumerate() { if x < *wi as u64 { return i; } x -= *wi as u64; }
        w.len() - 1
    }
    pub fn bytes(&mut self, n: usize) -> Vec<u8> { (0..n).map(|_| self.next() as u8).collect() }
}

pub fn derive_seed(base: u64, check: &str, i: u64) -> u64 {
    let mut h = base ^ 0x9E3779B97F4A7C15;
    for b in check.as_bytes() { h ^= *b as u64; h = h.wrapping_mul(0x100000001b3); }
    let mut x = h ^ i.wrapping_mul(0xD6E8FEB86659FD93);
    crate::world::splitmix(&mut x)
}
