//! libc symbol interposition: every source of nondeterminism ferrous (and std, rand, Lua) reaches
//! through libc is answered by the simulator. Definitions in the executable take precedence
//! over libc.so's, for calls from any object in the process.
#![allow(clippy::missing_safety_doc)]

use crate::raw::{self, fail, ret, sc3, sc6};
use crate::world::{self, *};
use libc::{c_char, c_int, c_long, c_uint, c_void, size_t, ssize_t};
use std::sync::atomic::{AtomicU32, AtomicUsize, Ordering};

#[inline]
fn tid() -> usize { TID.with(|t| t.get()) }

// ------------------------------------------------------------------------------------------
// time

unsafe fn put_ts(ts: *mut libc::timespec, ns: u64) {
    (*ts).tv_sec = (ns / 1_000_000_000) as i64;
    (*ts).tv_nsec = (ns % 1_000_000_000) as i64;
}

#[no_mangle]
pub unsafe extern "C" fn clock_gettime(clk: c_int, ts: *mut libc::timespec) -> c_int {
    if !active() { return ret(sc3(raw::SYS_CLOCK_GETTIME, clk as i64, ts as i64, 0)) as c_int; }
    let w = g();
    match clk {
        libc::CLOCK_MONOTONIC | libc::CLOCK_MONOTONIC_RAW | libc::CLOCK_MONOTONIC_COARSE | libc::CLOCK_BOOTTIME => { put_ts(ts, w.mono); 0 }
        libc::CLOCK_REALTIME | libc::CLOCK_REALTIME_COARSE => { put_ts(ts, (w.mono as i64 + w.real_off) as u64); 0 }
        // CPU-time clocks: deterministic stand-in derived from virtual time
        _ => { put_ts(ts, w.mono / 16); 0 }
    }
}
#[no_mangle]
pub unsafe extern "C" fn gettimeofday(tv: *mut libc::timeval, _tz: *mut c_void) -> c_int {
    if !active() { return ret(sc3(96, tv as i64, 0, 0)) as c_int; }
    let w = g();
    let real = (w.mono as i64 + w.real_off) as u64;
    if !tv.is_null() { (*tv).tv_sec = (real / 1_000_000_000) as i64; (*tv).tv_usec = ((real % 1_000_000_000) / 1000) as i64; }
    0
}
#[no_mangle]
pub unsafe extern "C" fn time(t: *mut libc::time_t) -> libc::time_t {
    let secs = if active() { let w = g(); ((w.mono as i64 + w.real_off) / 1_000_000_000) as libc::time_t } else {
        let mut ts = libc::timespec { tv_sec: 0, tv_nsec: 0 };
        sc3(raw::SYS_CLOCK_GETTIME, libc::CLOCK_REALTIME as i64, &mut ts as *mut _ as i64, 0);
        ts.tv_sec
    };
    if !t.is_null() { *t = secs; }
    secs
}

unsafe fn managed_sleep(idx: usize, until: u64) {
    let w = g();
    w.threads[idx].state = TState::Sleeping { until };
    yield_to_sim(idx, Reason::Sleep);
}

#[no_mangle]
pub unsafe extern "C" fn nanosleep(req: *const libc::timespec, rem: *mut libc::timespec) -> c_int {
    let idx = tid();
    if !active() || idx == NONE { return ret(sc3(raw::SYS_NANOSLEEP, req as i64, rem as i64, 0)) as c_int; }
    let d = (*req).tv_sec as u64 * 1_000_000_000 + (*req).tv_nsec as u64;
    managed_sleep(idx, g().mono.saturating_add(d));
    0
}
#[no_mangle]
pub unsafe extern "C" fn clock_nanosleep(clk: c_int, flags: c_int, req: *const libc::timespec, rem: *mut libc::timespec) -> c_int {
    let idx = tid();
    if !active() || idx == NONE {
        let r = sc6(raw::SYS_CLOCK_NANOSLEEP, clk as i64, flags as i64, req as i64, rem as i64, 0, 0);
        return if r < 0 { (-r) as c_int } else { 0 };
    }
    let t = (*req).tv_sec as u64 * 1_000_000_000 + (*req).tv_nsec as u64;
    let w = g();
    let until = if flags & libc::TIMER_ABSTIME != 0 {
        if clk == libc::CLOCK_REALTIME { (t as i64 - w.real_off).max(0) as u64 } else { t }
    } else { w.mono.saturating_add(t) };
    managed_sleep(idx, until);
    0
}
#[no_mangle]
pub unsafe extern "C" fn sched_yield() -> c_int {
    if !active() || tid() == NONE { return sc3(raw::SYS_SCHED_YIELD, 0, 0, 0) as c_int; }
    // the server loop's turn boundary is the TURN hook; a bare yield is not a scheduling point
    0
}
#[no_mangle]
pub unsafe extern "C" fn usleep(us: c_uint) -> c_int {
    let ts = libc::timespec { tv_sec: (us / 1_000_000) as i64, tv_nsec: ((us % 1_000_000) * 1000) as i64 };
    nanosleep(&ts, std::ptr::null_mut())
}
#[no_mangle]
pub unsafe extern "C" fn sleep(s: c_uint) -> c_uint {
    let ts = libc::timespec { tv_sec: s as i64, tv_nsec: 0 };
    nanosleep(&ts, std::ptr::null_mut());
    0
}

// ------------------------------------------------------------------------------------------
// entropy

#[no_mangle]
pub unsafe extern "C" fn getrandom(buf: *mut c_void, len: size_t, flags: c_uint) -> ssize_t {
    if !active() { return ret(sc3(raw::SYS_GETRANDOM, buf as i64, len as i64, flags as i64)) as ssize_t; }
    entropy_fill(std::slice::from_raw_parts_mut(buf as *mut u8, len));
    len as ssize_t
}
#[no_mangle]
pub unsafe extern "C" fn getentropy(buf: *mut c_void, len: size_t) -> c_int {
    if !active() { return if ret(sc3(raw::SYS_GETRANDOM, buf as i64, len as i64, 0)) < 0 { -1 } else { 0 }; }
    entropy_fill(std::slice::from_raw_parts_mut(buf as *mut u8, len));
    0
}

// ------------------------------------------------------------------------------------------
// syscall(2) wrapper: futex emulation + getrandom

const FUTEX_WAIT: i64 = 0;
const FUTEX_WAKE: i64 = 1;
const FUTEX_WAIT_BITSET: i64 = 9;
const FUTEX_WAKE_BITSET: i64 = 10;
const FUTEX_CLOCK_REALTIME: i64 = 256;

#[no_mangle]
pub unsafe extern "C" fn syscall(num: c_long, a1: c_long, a2: c_long, a3: c_long, a4: c_long, a5: c_long, a6: c_long) -> c_long {
    if active() {
        if num == raw::SYS_GETRANDOM {
            entropy_fill(std::slice::from_raw_parts_mut(a1 as *mut u8, a2 as usize));
            return a2;
        }
        if num == raw::SYS_FUTEX {
            let idx = tid();
            let cmd = a2 & 0x7f;
            if idx != NONE {
                match cmd {
                    FUTEX_WAIT | FUTEX_WAIT_BITSET => {
                        let word = &*(a1 as *const AtomicU32);
                        if word.load(Ordering::SeqCst) != a3 as u32 { return fail(libc::EAGAIN); }
                        let w = g();
                        let deadline = if a4 == 0 { None } else {
                            let ts = &*(a4 as *const libc::timespec);
                            let t = ts.tv_sec as u64 * 1_000_000_000 + ts.tv_nsec as u64;
                            Some(if cmd == FUTEX_WAIT { w.mono.saturating_add(t) }
                                 else if a2 & FUTEX_CLOCK_REALTIME != 0 { (t as i64 - w.real_off).max(0) as u64 } else { t })
                        };
                        w.fseq += 1;
                        w.threads[idx].futex_ret = 0;
                        w.threads[idx].state = TState::Futex { addr: a1 as usize, deadline, seq: w.fseq };
                        yield_to_sim(idx, Reason::FutexWait);
                        let r = g().threads[idx].futex_ret;
                        return if r < 0 { fail((-r) as i32) } else { 0 };
                    }
                    FUTEX_WAKE | FUTEX_WAKE_BITSET => {
                        return futex_wake_emulated(a1 as usize, a3);
                    }
                    _ => {}
                }
            } else if cmd == FUTEX_WAKE || cmd == FUTEX_WAKE_BITSET {
                // simulator thread releasing something a managed thread waits for
                let n = futex_wake_emulated(a1 as usize, a3);
                let r = sc6(num, a1, a2, a3, a4, a5, a6);
                return if r < 0 { ret(r) } else { r + n };
            }
        }
    }
    ret(sc6(num, a1, a2, a3, a4, a5, a6))
}

// ------------------------------------------------------------------------------------------
// threads

type StartFn = extern "C" fn(*mut c_void) -> *mut c_void;
type PthreadCreateFn = unsafe extern "C" fn(*mut libc::pthread_t, *const libc::pthread_attr_t, StartFn, *mut c_void) -> c_int;
static REAL_PTHREAD_CREATE: AtomicUsize = AtomicUsize::new(0);

struct Tramp { start: StartFn, arg: *mut c_void, idx: usize }

extern "C" fn trampoline(p: *mut c_void) -> *mut c_void {
    // No std::thread::current()/println! here: std's own thread start code has not run yet.
    let t = unsafe { Box::from_raw(p as *mut Tramp) };
    TID.with(|c| c.set(t.idx));
    world::thread_first_park(t.idx);
    let r = (t.start)(t.arg);
    let idx = t.idx;
    drop(t);
    TID.with(|c| c.set(NONE));
    let w = g();
    w.threads[idx].state = TState::Exited;
    w.threads[idx].reason = Reason::Exit;
    w.current = NONE;
    // hand the baton back without waiting for it again
    w.sim_park.store(1, Ordering::SeqCst);
    raw::futex_wake(&w.sim_park as *const AtomicU32 as *const u32, 1);
    r
}

#[no_mangle]
pub unsafe extern "C" fn pthread_create(th: *mut libc::pthread_t, attr: *const libc::pthread_attr_t, start: StartFn, arg: *mut c_void) -> c_int {
    let mut real = REAL_PTHREAD_CREATE.load(Ordering::Relaxed);
    if real == 0 {
        real = libc::dlsym(libc::RTLD_NEXT, b"pthread_create\0".as_ptr() as *const c_char) as usize;
        REAL_PTHREAD_CREATE.store(real, Ordering::Relaxed);
    }
    let real: PthreadCreateFn = std::mem::transmute(real);
    if !active() { return real(th, attr, start, arg); }
    let me = tid();
    let w = g();
    let instance = if me == NONE { w.boot_instance } else { w.threads[me].instance };
    let idx = alloc_thread(instance, me);
    world::log_event(&format!("spawn t{} by {} inst {}", idx, me as i64, instance));
    let b = Box::into_raw(Box::new(Tramp { start, arg, idx }));
    let r = real(th, attr, trampoline, b as *mut c_void);
    if r != 0 { g().threads[idx].state = TState::Free; drop(Box::from_raw(b)); }
    r
}

type ExitFn = unsafe extern "C" fn(c_int) -> !;
#[no_mangle]
pub unsafe extern "C" fn exit(code: c_int) -> ! {
    let idx = tid();
    if active() && idx != NONE {
        let w = g();
        let inst = w.threads[idx].instance;
        w.proc_exits.push((inst, code));
        world::log_event(&format!("proc-exit inst {} code {}", inst, code));
        freeze_instance(inst);
        yield_to_sim(idx, Reason::ProcExit { code });
        loop { raw::futex_wait(&w.threads[idx].park as *const AtomicU32 as *const u32, 0, None); }
    }
    let real = libc::dlsym(libc::RTLD_NEXT, b"exit\0".as_ptr() as *const c_char);
    let real: ExitFn = std::mem::transmute(real);
    real(code)
}

#[no_mangle]
pub unsafe extern "C" fn getpid() -> libc::pid_t {
    if active() { 4242 } else { raw::real_pid() }
}

// ------------------------------------------------------------------------------------------
// transport

#[no_mangle]
pub unsafe extern "C" fn bind(fd: c_int, addr: *const libc::sockaddr, len: libc::socklen_t) -> c_int {
    if active() && !addr.is_null() && (*addr).sa_family as i32 == libc::AF_INET && (fd as usize) < MAX_FD {
        let w = g();
        let me = tid();
        let instance = if me == NONE { w.boot_instance } else { w.threads[me].instance };
        w.fds[fd as usize].kind = FdKind::Listener;
        w.fds[fd as usize].instance = instance;
        return 0;
    }
    ret(sc3(raw::SYS_BIND, fd as i64, addr as i64, len as i64)) as c_int
}
#[no_mangle]
pub unsafe extern "C" fn listen(fd: c_int, backlog: c_int) -> c_int {
    if active() && (fd as usize) < MAX_FD && g().fds[fd as usize].kind == FdKind::Listener { return 0; }
    ret(sc3(raw::SYS_LISTEN, fd as i64, backlog as i64, 0)) as c_int
}
#[no_mangle]
pub unsafe extern "C" fn accept4(fd: c_int, addr: *mut libc::sockaddr, len: *mut libc::socklen_t, flags: c_int) -> c_int {
    if active() && (fd as usize) < MAX_FD && g().fds[fd as usize].kind == FdKind::Listener {
        let w = g();
        let inst = w.fds[fd as usize].instance;
        if inst >= w.accept_q.len() { return fail(libc::EAGAIN) as c_int; }
        match w.accept_q[inst].pop_front() {
            Some((sfd, conn)) => {
                if !addr.is_null() && !len.is_null() && *len as usize >= std::mem::size_of::<libc::sockaddr_in>() {
                    let sa = addr as *mut libc::sockaddr_in;
                    std::ptr::write_bytes(sa as *mut u8, 0, std::mem::size_of::<libc::sockaddr_in>());
                    (*sa).sin_family = libc::AF_INET as u16;
                    (*sa).sin_port = (40000u16 + (conn as u16 % 20000)).to_be();
                    (*sa).sin_addr.s_addr = u32::from_ne_bytes([127, 0, 0, 1]);
                    *len = std::mem::size_of::<libc::sockaddr_in>() as u32;
                }
                let f = &mut w.fds[sfd as usize];
                f.kind = FdKind::Conn; f.instance = inst; f.conn = conn;
                w.n_accept += 1;
                world::log_event(&format!("accept inst {} conn {}", inst, conn));
                sfd
            }
            None => fail(libc::EAGAIN) as c_int,
        }
    } else {
        ret(sc6(raw::SYS_ACCEPT4, fd as i64, addr as i64, len as i64, flags as i64, 0, 0)) as c_int
    }
}
#[no_mangle]
pub unsafe extern "C" fn accept(fd: c_int, addr: *mut libc::sockaddr, len: *mut libc::socklen_t) -> c_int {
    accept4(fd, addr, len, 0)
}
#[no_mangle]
pub unsafe extern "C" fn setsockopt(fd: c_int, level: c_int, name: c_int, val: *const c_void, len: libc::socklen_t) -> c_int {
    if active() && (fd as usize) < MAX_FD && g().fds[fd as usize].kind == FdKind::Conn && level == libc::IPPROTO_TCP { return 0; }
    ret(sc6(raw::SYS_SETSOCKOPT, fd as i64, level as i64, name as i64, val as i64, len as i64, 0)) as c_int
}

unsafe fn conn_recv(fd: c_int, buf: *mut c_void, len: size_t, flags: c_int) -> ssize_t {
    let w = g();
    let (inst, conn, clamp) = { let f = &w.fds[fd as usize]; (f.instance, f.conn, f.recv_max) };
    let mut len = len;
    if clamp > 0 && len > clamp { len = clamp; }
    if let Some(act) = fault_for(inst, Op::Recv, conn, None) {
        match act {
            Action::Errno(e) => { world::log_event(&format!("recv c{} fault errno {}", conn, e)); return fail(e) as ssize_t; }
            Action::Short(n) => { len = len.min(n.max(1)); }
            _ => {}
        }
    }
    let r = sc6(raw::SYS_RECVFROM, fd as i64, buf as i64, len as i64, flags as i64, 0, 0);
    if r > 0 {
        let c = &mut w.conns[conn];
        c.consumed += r as u64;
        w.evseq += 1;
        c.recvs.push(RecvRec { upto: c.consumed, mono: w.mono, seq: w.evseq });
        w.n_recv += 1;
        world::log_event(&format!("recv c{} {}", conn, r));
    } else if r == 0 {
        world::log_event(&format!("recv c{} eof", conn));
    }
    ret(r) as ssize_t
}
unsafe fn conn_send(fd: c_int, buf: *const c_void, len: size_t, flags: c_int) -> ssize_t {
    let w = g();
    let (inst, conn, clamp) = { let f = &w.fds[fd as usize]; (f.instance, f.conn, f.send_max) };
    let mut len = len;
    if clamp > 0 && len > clamp { len = clamp; }
    if let Some(act) = fault_for(inst, Op::Send, conn, None) {
        match act {
            Action::Errno(e) => { world::log_event(&format!("send c{} fault errno {}", conn, e)); return fail(e) as ssize_t; }
            Action::Short(n) => { len = len.min(n.max(1)); }
            _ => {}
        }
    }
    let r = sc6(raw::SYS_SENDTO, fd as i64, buf as i64, len as i64, (flags | libc::MSG_NOSIGNAL) as i64, 0, 0);
    if r > 0 {
        w.conns[conn].sent += r as u64;
        w.n_send += 1;
        world::log_event(&format!("send c{} {}", conn, r));
    }
    ret(r) as ssize_t
}

#[no_mangle]
pub unsafe extern "C" fn recv(fd: c_int, buf: *mut c_void, len: size_t, flags: c_int) -> ssize_t {
    if active() && (fd as usize) < MAX_FD && g().fds[fd as usize].kind == FdKind::Conn && tid() != NONE { return conn_recv(fd, buf, len, flags); }
    ret(sc6(raw::SYS_RECVFROM, fd as i64, buf as i64, len as i64, flags as i64, 0, 0)) as ssize_t
}
#[no_mangle]
pub unsafe extern "C" fn send(fd: c_int, buf: *const c_void, len: size_t, flags: c_int) -> ssize_t {
    if active() && (fd as usize) < MAX_FD && g().fds[fd as usize].kind == FdKind::Conn && tid() != NONE { return conn_send(fd, buf, len, flags); }
    ret(sc6(raw::SYS_SENDTO, fd as i64, buf as i64, len as i64, flags as i64, 0, 0)) as ssize_t
}
#[no_mangle]
pub unsafe extern "C" fn read(fd: c_int, buf: *mut c_void, len: size_t) -> ssize_t {
    if active() && fd >= 0 && (fd as usize) < MAX_FD && g().fds[fd as usize].kind == FdKind::Conn && tid() != NONE { return conn_recv(fd, buf, len, 0); }
    ret(sc3(raw::SYS_READ, fd as i64, buf as i64, len as i64)) as ssize_t
}

// ------------------------------------------------------------------------------------------
// disk

unsafe fn classify(path: &[u8]) -> Option<FileClass> {
    let w = g();
    if w.disk_prefix.is_empty() || !path.starts_with(&w.disk_prefix) { return None; }
    Some(if path.ends_with(b".tmp") { FileClass::DumpTmp } else if path.ends_with(b".rdb") { FileClass::Dump }
         else if path.ends_with(b".aof") { FileClass::Aof } else { FileClass::Other })
}
unsafe fn cstr<'a>(p: *const c_char) -> &'a [u8] { std::ffi::CStr::from_ptr(p).to_bytes() }

unsafe fn crash_here(idx: usize) -> ! {
    let w = g();
    let inst = w.threads[idx].instance;
    world::log_event(&format!("crash inst {}", inst));
    freeze_instance(inst);
    yield_to_sim(idx, Reason::Crashed);
    loop { raw::futex_wait(&w.threads[idx].park as *const AtomicU32 as *const u32, 0, None); }
}

unsafe fn open_common(dirfd: c_int, path: *const c_char, flags: c_int, mode: c_uint) -> c_int {
    if active() && !path.is_null() {
        let idx = tid();
        let p = cstr(path);
        if idx == NONE && g().booting {
            // Server::from_config runs on the simulator thread: track the files it opens for writing
            // (the AOF) so later writes by managed threads are seen; no faults at boot.
            if let Some(class) = classify(p) {
                let fd = ret(sc6(raw::SYS_OPENAT, dirfd as i64, path as i64, flags as i64, mode as i64, 0, 0)) as c_int;
                if fd >= 0 && (fd as usize) < MAX_FD && flags & (libc::O_WRONLY | libc::O_RDWR | libc::O_CREAT) != 0 {
                    let w = g();
                    let f = &mut w.fds[fd as usize];
                    f.kind = FdKind::Disk; f.instance = w.boot_instance; f.class = class;
                }
                return fd;
            }
        }
        if idx != NONE {
            if let Some(class) = classify(p) {
                let w = g();
                let inst = w.threads[idx].instance;
                let writing = flags & (libc::O_WRONLY | libc::O_RDWR | libc::O_CREAT) != 0;
                if writing {
                    if let Some(act) = fault_for(inst, Op::Open, NONE, Some(class)) {
                        w.disk_log.push(DiskOpRec { instance: inst, op: Op::Open, class, bytes: 0, ok: false });
                        match act {
                            Action::Errno(e) => { world::log_event(&format!("open {:?} fault {}", class, e)); return fail(e) as c_int; }
                            Action::CrashBefore | Action::CrashAfter(_) => crash_here(idx),
                            _ => {}
                        }
                    }
                }
                let fd = ret(sc6(raw::SYS_OPENAT, dirfd as i64, path as i64, flags as i64, mode as i64, 0, 0)) as c_int;
                if fd >= 0 && (fd as usize) < MAX_FD && writing {
                    let f = &mut w.fds[fd as usize];
                    f.kind = FdKind::Disk; f.instance = inst; f.class = class;
                    w.disk_log.push(DiskOpRec { instance: inst, op: Op::Open, class, bytes: 0, ok: true });
                    w.n_disk += 1;
                    world::log_event(&format!("open {:?} fd", class));
                }
                return fd;
            } else if p.starts_with(b"/") && !p.starts_with(b"/proc/") && !p.starts_with(b"/sys/") && !p.starts_with(b"/dev/") && !p.starts_with(b"/etc/") {
                // a managed thread opening a file outside the run's data directory
                g().forbidden_calls.push(format!("open {}", String::from_utf8_lossy(p)));
            }
        }
    }
    ret(sc6(raw::SYS_OPENAT, dirfd as i64, path as i64, flags as i64, mode as i64, 0, 0)) as c_int
}
#[no_mangle]
pub unsafe extern "C" fn open64(path: *const c_char, flags: c_int, mode: c_uint) -> c_int { open_common(libc::AT_FDCWD, path, flags, mode) }
#[no_mangle]
pub unsafe extern "C" fn open(path: *const c_char, flags: c_int, mode: c_uint) -> c_int { open_common(libc::AT_FDCWD, path, flags, mode) }
#[no_mangle]
pub unsafe extern "C" fn openat(dirfd: c_int, path: *const c_char, flags: c_int, mode: c_uint) -> c_int { open_common(dirfd, path, flags, mode) }
#[no_mangle]
pub unsafe extern "C" fn openat64(dirfd: c_int, path: *const c_char, flags: c_int, mode: c_uint) -> c_int { open_common(dirfd, path, flags, mode) }

#[no_mangle]
pub unsafe extern "C" fn write(fd: c_int, buf: *const c_void, len: size_t) -> ssize_t {
    if active() && fd >= 0 && (fd as usize) < MAX_FD {
        let idx = tid();
        let w = g();
        if (fd == 1 || fd == 2) && w.mute && w.fds[fd as usize].kind == FdKind::None { return len as ssize_t; }
        if idx != NONE {
            match w.fds[fd as usize].kind {
                FdKind::Conn => return conn_send(fd, buf, len, 0),
                FdKind::Disk => {
                    let (inst, class) = (w.fds[fd as usize].instance, w.fds[fd as usize].class);
                    let mut n = len;
                    let mut crash_after = false;
                    if let Some(act) = fault_for(inst, Op::Write, NONE, Some(class)) {
                        match act {
                            Action::Errno(e) => {
                                w.disk_log.push(DiskOpRec { instance: inst, op: Op::Write, class, bytes: 0, ok: false });
                                world::log_event(&format!("write {:?} fault {}", class, e));
                                return fail(e) as ssize_t;
                            }
                            Action::Short(k) => { n = n.min(k.max(1)); }
                            Action::CrashBefore => { w.disk_log.push(DiskOpRec { instance: inst, op: Op::Write, class, bytes: 0, ok: false }); crash_here(idx) }
                            Action::CrashAfter(k) => { n = n.min(k); crash_after = true; }
                        }
                    }
                    let r = if n == 0 { 0 } else { sc3(raw::SYS_WRITE, fd as i64, buf as i64, n as i64) };
                    w.disk_log.push(DiskOpRec { instance: inst, op: Op::Write, class, bytes: r.max(0) as usize, ok: r >= 0 && !crash_after });
                    w.n_disk += 1;
                    world::log_event(&format!("write {:?} {}", class, r));
                    if w.disk_write_latency_ns > 0 && r > 0 { let to = w.mono.saturating_add(w.disk_write_latency_ns); world::set_mono(to); }
                    if crash_after { crash_here(idx) }
                    return ret(r) as ssize_t;
                }
                _ => {}
            }
        }
    }
    ret(sc3(raw::SYS_WRITE, fd as i64, buf as i64, len as i64)) as ssize_t
}

unsafe fn sync_common(nr: i64, fd: c_int) -> c_int {
    if active() && fd >= 0 && (fd as usize) < MAX_FD && tid() != NONE && g().fds[fd as usize].kind == FdKind::Disk {
        let w = g();
        let (inst, class) = (w.fds[fd as usize].instance, w.fds[fd as usize].class);
        if let Some(act) = fault_for(inst, Op::Fsync, NONE, Some(class)) {
            w.disk_log.push(DiskOpRec { instance: inst, op: Op::Fsync, class, bytes: 0, ok: false });
            match act {
                Action::Errno(e) => return fail(e) as c_int,
                Action::CrashBefore | Action::CrashAfter(_) => crash_here(tid()),
                _ => {}
            }
        }
        w.disk_log.push(DiskOpRec { instance: inst, op: Op::Fsync, class, bytes: 0, ok: true });
        w.n_disk += 1;
        world::log_event(&format!("fsync {:?}", class));
    }
    ret(sc3(nr, fd as i64, 0, 0)) as c_int
}
#[no_mangle]
pub unsafe extern "C" fn fsync(fd: c_int) -> c_int { sync_common(raw::SYS_FSYNC, fd) }
#[no_mangle]
pub unsafe extern "C" fn fdatasync(fd: c_int) -> c_int { sync_common(raw::SYS_FDATASYNC, fd) }

#[no_mangle]
pub unsafe extern "C" fn rename(old: *const c_char, new: *const c_char) -> c_int {
    if active() && tid() != NONE {
        if let Some(class) = classify(cstr(new)) {
            let idx = tid();
            let w = g();
            let inst = w.threads[idx].instance;
            if let Some(act) = fault_for(inst, Op::Rename, NONE, Some(class)) {
                w.disk_log.push(DiskOpRec { instance: inst, op: Op::Rename, class, bytes: 0, ok: false });
                match act {
                    Action::Errno(e) => { world::log_event(&format!("rename fault {}", e)); return fail(e) as c_int; }
                    Action::CrashBefore => crash_here(idx),
                    Action::CrashAfter(_) => { sc3(raw::SYS_RENAME, old as i64, new as i64, 0); crash_here(idx) }
                    _ => {}
                }
            }
            let r = sc3(raw::SYS_RENAME, old as i64, new as i64, 0);
            w.disk_log.push(DiskOpRec { instance: inst, op: Op::Rename, class, bytes: 0, ok: r >= 0 });
            w.n_disk += 1;
            world::log_event(&format!("rename -> {:?} {}", class, r));
            return ret(r) as c_int;
        }
    }
    ret(sc3(raw::SYS_RENAME, old as i64, new as i64, 0)) as c_int
}

#[no_mangle]
pub unsafe extern "C" fn close(fd: c_int) -> c_int {
    if active() && fd >= 0 && (fd as usize) < MAX_FD {
        let f = &mut g().fds[fd as usize];
        if f.kind != FdKind::None {
            if f.kind == FdKind::Conn { world::log_event(&format!("close c{}", f.conn)); }
            f.kind = FdKind::None; f.recv_max = 0; f.send_max = 0; f.conn = NONE;
        }
    }
    ret(sc3(raw::SYS_CLOSE, fd as i64, 0, 0)) as c_int
}

// process-level escapes a script sandbox must never reach; recorded, then refused
#[no_mangle]
pub unsafe extern "C" fn system(_cmd: *const c_char) -> c_int {
    if active() { g().forbidden_calls.push("system".into()); }
    -1
}
#[no_mangle]
pub unsafe extern "C" fn popen(_cmd: *const c_char, _mode: *const c_char) -> *mut c_void {
    if active() { g().forbidden_calls.push("popen".into()); }
    std::ptr::null_mut()
}
