pub mod keyspace;
pub mod stream;
