//! Reference model of streams and consumer groups, written from the Redis documentation
//! (no ferrous code inside): an ordered map of entries, the last id, and per group a cursor plus
//! one pending map. Everything the implementation keeps in duplicate (length counters, two
//! pending indexes, per-consumer counters) exists exactly once here.
#![allow(dead_code)]
use super::keyspace::{strict_i64, Entry, Exp, Model, Pred, Val};
use crate::resp::R;
use std::collections::{BTreeMap, BTreeSet};
use std::rc::Rc;

pub type Bytes = Vec<u8>;
pub type Id = (u64, u64);
pub const MAX_ID: Id = (u64::MAX, u64::MAX);

#[derive(Clone, Debug, PartialEq)]
pub struct PelE {
    pub consumer: Bytes,
    pub count: u64,
    /// realtime clock (ns) of the last delivery
    pub last_delivery: i128,
}

#[derive(Clone, Debug, PartialEq, Default)]
pub struct GroupM {
    pub last_delivered: Id,
    pub pel: BTreeMap<Id, PelE>,
    /// consumers known to exist (creation by a read that delivered nothing is version-dependent,
    /// so existence is only ever compared for owners of pending entries)
    pub consumers: BTreeSet<Bytes>,
}

#[derive(Clone, Debug, PartialEq, Default)]
pub struct StreamM {
    pub entries: BTreeMap<Id, Vec<(Bytes, Bytes)>>,
    pub last_id: Id,
    /// greatest id ever added (never decreases)
    pub max_ever: Id,
    pub groups: BTreeMap<Bytes, GroupM>,
}

pub fn id_str(id: Id) -> Bytes { format!("{}-{}", id.0, id.1).into_bytes() }

fn dec_u64(b: &[u8]) -> Option<u64> {
    if b.is_empty() || b.len() > 20 || !b.iter().all(|c| c.is_ascii_digit()) { return None; }
    std::str::from_utf8(b).ok()?.parse::<u64>().ok()
}
/// complete id "ms-seq"
pub fn parse_id(b: &[u8]) -> Option<Id> {
    let p = b.iter().position(|c| *c == b'-')?;
    Some((dec_u64(&b[..p])?, dec_u64(&b[p + 1..])?))
}
/// Is `b` an id in the incomplete form ("ms" alone) that Redis completes?
pub fn incomplete_id(b: &[u8]) -> bool { dec_u64(b).is_some() }

fn entry_reply(id: Id, f: &[(Bytes, Bytes)]) -> (Id, Vec<(Bytes, Bytes)>) { let mut f = f.to_vec(); f.sort(); (id, f) }

/// Does `r` encode exactly these entries, in this order (field order within an entry free)?
pub fn entries_match(r: &R, want: &[(Id, Vec<(Bytes, Bytes)>)]) -> bool {
    let a = match r { R::Arr(a) => a, R::NilArr => return want.is_empty(), _ => return false };
    if a.len() != want.len() { return false; }
    for (e, (id, f)) in a.iter().zip(want.iter()) {
        let p = match e { R::Arr(p) if p.len() == 2 => p, _ => return false };
        if p[0] != R::Bulk(id_str(*id)) { return false; }
        let fl = match &p[1] { R::Arr(fl) => fl, _ => return false };
        if fl.len() != f.len() * 2 { return false; }
        let mut got: Vec<(Bytes, Bytes)> = Vec::new();
        for c in fl.chunks(2) { match (&c[0], &c[1]) { (R::Bulk(k), R::Bulk(v)) => got.push((k.clone(), v.clone())), _ => return false } }
        got.sort();
        let mut w = f.clone(); w.sort();
        if got != w { return false; }
    }
    true
}

fn entries_exp(want: Vec<(Id, Vec<(Bytes, Bytes)>)>) -> Exp {
    let desc = format!("entries [{}]", want.iter().take(8).map(|(id, f)| format!("{}-{}({})", id.0, id.1, f.len())).collect::<Vec<_>>().join(", "));
    let kind = if want.is_empty() { "emptyarr" } else { "arr" };
    Exp::Pred(Pred { kind, desc, f: Rc::new(move |r| entries_match(r, &want)) })
}

/// XREAD / XREADGROUP reply: [[key, entries] ...] or nil when nothing is returned
fn xread_exp(want: Vec<(Bytes, Vec<(Id, Vec<(Bytes, Bytes)>)>)>) -> Exp {
    let desc = format!("per-stream entries [{}]", want.iter().map(|(k, e)| format!("{}: {}", crate::resp::escape(k), e.iter().take(8).map(|(id, _)| format!("{}-{}", id.0, id.1)).collect::<Vec<_>>().join(","))).collect::<Vec<_>>().join("; "));
    let kind = if want.is_empty() { "nilarr" } else { "arr" };
    Exp::Pred(Pred { kind, desc, f: Rc::new(move |r| {
        match r {
            R::NilArr | R::Nil => want.is_empty(),
            R::Arr(a) => {
                if a.len() != want.len() { return false; }
                a.iter().zip(want.iter()).all(|(s, (k, e))| matches!(s, R::Arr(p) if p.len() == 2 && p[0] == R::Bulk(k.clone()) && entries_match(&p[1], e)))
            }
            _ => false,
        }
    }) })
}

fn int_like(r: &R) -> Option<i64> { match r { R::Int(i) => Some(*i), R::Bulk(b) => strict_i64(b), _ => None } }

struct Count(Option<usize>);
/// COUNT argument: None = malformed; Some(Count(None)) = unlimited
fn parse_count(b: &[u8]) -> Option<i64> { strict_i64(b) }

impl StreamM {
    pub fn range(&self, lo: Id, hi: Id) -> Vec<(Id, Vec<(Bytes, Bytes)>)> {
        if lo > hi { return vec![]; }
        self.entries.range(lo..=hi).map(|(k, f)| entry_reply(*k, f)).collect()
    }
    pub fn after(&self, id: Id) -> Vec<(Id, Vec<(Bytes, Bytes)>)> {
        self.entries.iter().filter(|(k, _)| **k > id).map(|(k, f)| entry_reply(*k, f)).collect()
    }
}

fn stream_of<'a>(m: &'a Model, db: usize, key: &[u8]) -> Result<Option<&'a StreamM>, ()> {
    match m.dbs[db].map.get(key) { None => Ok(None), Some(Entry { val: Val::Stream(s), .. }) => Ok(Some(s)), Some(_) => Err(()) }
}

fn upper(b: &[u8]) -> String { String::from_utf8_lossy(b).to_uppercase() }
fn any_empty() -> Exp { Exp::AnyOf(vec![Exp::Is(R::Arr(vec![])), Exp::Is(R::NilArr)]) }

/// Parsed XADD: (id argument, fields)
fn xadd_parts(a: &[Bytes]) -> Option<(&Bytes, Vec<(Bytes, Bytes)>)> {
    if a.len() < 5 || (a.len() - 3) % 2 != 0 { return None; }
    Some((&a[2], a[3..].chunks(2).map(|c| (c[0].clone(), c[1].clone())).collect()))
}

struct ReadGroupArgs { group: Bytes, consumer: Bytes, count: Option<usize>, noack: bool, keys: Vec<Bytes>, ids: Vec<Bytes> }
fn parse_xreadgroup(a: &[Bytes]) -> Option<ReadGroupArgs> {
    if a.len() < 7 || upper(&a[1]) != "GROUP" { return None; }
    let (group, consumer) = (a[2].clone(), a[3].clone());
    let mut i = 4; let mut count = None; let mut noack = false;
    loop {
        if i >= a.len() { return None; }
        match upper(&a[i]).as_str() {
            "COUNT" => { let c = strict_i64(a.get(i + 1)?)?; if c < 0 { return None; } count = if c == 0 { None } else { Some(c as usize) }; i += 2; }
            "NOACK" => { noack = true; i += 1; }
            "STREAMS" => { i += 1; break; }
            _ => return None,
        }
    }
    let rest = &a[i..];
    if rest.is_empty() || rest.len() % 2 != 0 { return None; }
    let k = rest.len() / 2;
    Some(ReadGroupArgs { group, consumer, count, noack, keys: rest[..k].to_vec(), ids: rest[k..].to_vec() })
}

struct ClaimArgs { ids: Vec<Id>, justid: bool, force: bool, other_opts: bool }
fn parse_xclaim(a: &[Bytes]) -> Option<ClaimArgs> {
    let mut r = ClaimArgs { ids: vec![], justid: false, force: false, other_opts: false };
    let mut i = 5;
    while i < a.len() {
        if let Some(id) = parse_id(&a[i]) { if r.justid || r.force || r.other_opts { return None; } r.ids.push(id); i += 1; continue; }
        match upper(&a[i]).as_str() {
            "JUSTID" => { r.justid = true; i += 1; }
            "FORCE" => { r.force = true; i += 1; }
            "IDLE" | "TIME" | "RETRYCOUNT" => { r.other_opts = true; i += 2; }
            _ => return None,
        }
    }
    if r.ids.is_empty() { None } else { Some(r) }
}

fn pending_summary_exp(g: &GroupM) -> Exp {
    let total = g.pel.len() as i64;
    let min = g.pel.keys().next().copied();
    let max = g.pel.keys().next_back().copied();
    let mut per: BTreeMap<Bytes, i64> = BTreeMap::new();
    for e in g.pel.values() { *per.entry(e.consumer.clone()).or_insert(0) += 1; }
    let desc = format!("[{}, {:?}, {:?}, {:?}]", total, min, max, per.iter().map(|(c, n)| (crate::resp::escape(c), *n)).collect::<Vec<_>>());
    Exp::Pred(Pred { kind: "arr", desc, f: Rc::new(move |r| {
        let a = match r { R::Arr(a) if a.len() == 4 => a, _ => return false };
        if a[0] != R::Int(total) { return false; }
        let idok = |r: &R, want: Option<Id>| match want { None => matches!(r, R::Nil), Some(id) => *r == R::Bulk(id_str(id)) };
        if !idok(&a[1], min) || !idok(&a[2], max) { return false; }
        match &a[3] {
            R::Nil | R::NilArr => per.is_empty(),
            R::Arr(rows) => {
                let mut got: BTreeMap<Bytes, i64> = BTreeMap::new();
                for row in rows {
                    match row { R::Arr(p) if p.len() == 2 => match (&p[0], int_like(&p[1])) { (R::Bulk(c), Some(n)) => { if got.insert(c.clone(), n).is_some() { return false; } } _ => return false }, _ => return false }
                }
                got == per
            }
            _ => false,
        }
    }) })
}

fn pending_rows_exp(rows: Vec<(Id, Bytes, i64, u64)>) -> Exp {
    let desc = format!("rows {:?}", rows.iter().take(8).map(|(id, c, idle, n)| (format!("{}-{}", id.0, id.1), crate::resp::escape(c), *idle, *n)).collect::<Vec<_>>());
    let kind = if rows.is_empty() { "emptyarr" } else { "arr" };
    Exp::Pred(Pred { kind, desc, f: Rc::new(move |r| {
        let a = match r { R::Arr(a) => a, R::NilArr => return rows.is_empty(), _ => return false };
        if a.len() != rows.len() { return false; }
        // the property fixes which ids are pending and who owns them; the idle and delivery-count
        // columns are only required to be well-formed
        a.iter().zip(rows.iter()).all(|(row, (id, c, _idle, _n))| match row {
            R::Arr(p) if p.len() == 4 => p[0] == R::Bulk(id_str(*id)) && p[1] == R::Bulk(c.clone()) && matches!(p[2], R::Int(i) if i >= 0) && matches!(p[3], R::Int(i) if i >= 1),
            _ => false,
        })
    }) })
}

fn idle_ms(real_ns: i128, last: i128) -> i64 { let d = real_ns - last; if d <= 0 { 0 } else { (d / 1_000_000) as i64 } }

/// Range bound of XRANGE-style commands: "-" / "+" / complete id.
fn bound(b: &[u8]) -> Option<Id> { match b { b"-" => Some((0, 0)), b"+" => Some(MAX_ID), _ => parse_id(b) } }

pub fn expect(m: &Model, db: usize, name: &str, a: &[Bytes], now: u64) -> Option<Exp> {
    let n = a.len();
    let real_ns = now as i128 + m.real_off as i128;
    Some(match name {
        "XADD" => {
            let (idarg, _fields) = match xadd_parts(a) { Some(p) => p, None => return Some(Exp::Err) };
            let s = match stream_of(m, db, &a[1]) { Err(()) => return Some(Exp::Err), Ok(s) => s };
            let (last, max_ever) = s.map_or(((0, 0), (0, 0)), |s| (s.last_id, s.max_ever));
            if idarg.as_slice() == b"*" {
                let floor = last.max(max_ever);
                if floor == MAX_ID { return Some(Exp::Err); }
                Exp::Pred(Pred { kind: "bulk", desc: format!("an id greater than {}-{}", floor.0, floor.1), f: Rc::new(move |r| matches!(r, R::Bulk(b) if parse_id(b).map_or(false, |id| id > floor && *b == id_str(id)))) })
            } else {
                match parse_id(idarg) {
                    None => Exp::Err,
                    Some((0, 0)) => Exp::Err,
                    Some(id) if id <= last => Exp::Err,
                    Some(id) => Exp::Is(R::Bulk(id_str(id))),
                }
            }
        }
        "XLEN" => {
            if n != 2 { return Some(Exp::Err); }
            match stream_of(m, db, &a[1]) { Err(()) => Exp::Err, Ok(s) => Exp::Is(R::Int(s.map_or(0, |s| s.entries.len()) as i64)) }
        }
        "XRANGE" | "XREVRANGE" => {
            if n != 4 && n != 6 { return Some(Exp::Err); }
            let count = if n == 6 { if upper(&a[4]) != "COUNT" { return Some(Exp::Err); } match parse_count(&a[5]) { Some(c) => Some(c), None => return Some(Exp::Err) } } else { None };
            let (lo_arg, hi_arg) = if name == "XRANGE" { (&a[2], &a[3]) } else { (&a[3], &a[2]) };
            let (lo, hi) = match (bound(lo_arg), bound(hi_arg)) { (Some(l), Some(h)) => (l, h), _ => return Some(Exp::Err) };
            let s = match stream_of(m, db, &a[1]) { Err(()) => return Some(Exp::Err), Ok(s) => s };
            match count { Some(c) if c < 0 => return Some(Exp::AnyOf(vec![Exp::Err, any_empty()])), Some(0) => return Some(any_empty()), _ => {} }
            let mut v = s.map_or(vec![], |s| s.range(lo, hi));
            if name == "XREVRANGE" { v.reverse(); }
            if let Some(c) = count { v.truncate(c as usize); }
            entries_exp(v)
        }
        "XREAD" => {
            let mut i = 1; let mut count: Option<usize> = None;
            loop {
                if i >= n { return Some(Exp::Err); }
                match upper(&a[i]).as_str() {
                    "COUNT" => { match a.get(i + 1).and_then(|c| strict_i64(c)) { Some(c) if c >= 0 => { count = if c == 0 { None } else { Some(c as usize) }; } _ => return Some(Exp::Err) } i += 2; }
                    "STREAMS" => { i += 1; break; }
                    _ => return None, // BLOCK and friends: not modelled
                }
            }
            let rest = &a[i..];
            if rest.is_empty() || rest.len() % 2 != 0 { return Some(Exp::Err); }
            let k = rest.len() / 2;
            let mut want = Vec::new();
            for j in 0..k {
                let s = match stream_of(m, db, &rest[j]) { Err(()) => return Some(Exp::Err), Ok(s) => s };
                let idb = &rest[k + j];
                let after = if idb.as_slice() == b"$" { s.map_or((0, 0), |s| s.last_id) } else if incomplete_id(idb) { (dec_u64(idb).unwrap(), 0) } else { match parse_id(idb) { Some(id) => id, None => return Some(Exp::Err) } };
                if let Some(s) = s { let mut v = s.after(after); if let Some(c) = count { v.truncate(c); } if !v.is_empty() { want.push((rest[j].clone(), v)); } }
            }
            xread_exp(want)
        }
        "XDEL" => {
            if n < 3 { return Some(Exp::Err); }
            let mut ids = BTreeSet::new();
            for b in &a[2..] { match parse_id(b) { Some(id) => { ids.insert(id); } None => return Some(Exp::Err) } }
            match stream_of(m, db, &a[1]) { Err(()) => Exp::Err, Ok(None) => Exp::Is(R::Int(0)), Ok(Some(s)) => Exp::Is(R::Int(ids.iter().filter(|id| s.entries.contains_key(id)).count() as i64)) }
        }
        "XTRIM" => {
            if n < 4 || upper(&a[2]) != "MAXLEN" { return None; }
            let (approx, narg) = match a[3].as_slice() { b"~" => (true, a.get(4)), b"=" => (false, a.get(4)), _ => (false, a.get(3)) };
            let expect_n = if matches!(a[3].as_slice(), b"~" | b"=") { 5 } else { 4 };
            if n != expect_n { return None; }
            let maxlen = match narg.and_then(|b| strict_i64(b)) { Some(v) if v >= 0 => v as usize, _ => return Some(Exp::Err) };
            match stream_of(m, db, &a[1]) {
                Err(()) => Exp::Err,
                Ok(None) => Exp::Is(R::Int(0)),
                Ok(Some(s)) => { let ev = s.entries.len().saturating_sub(maxlen) as i64; if approx { Exp::IntRange(0, ev) } else { Exp::Is(R::Int(ev)) } }
            }
        }
        "XGROUP" => {
            if n < 2 { return Some(Exp::Err); }
            match upper(&a[1]).as_str() {
                "CREATE" => {
                    if n != 5 && n != 6 { return Some(Exp::Err); }
                    let mk = n == 6 && upper(&a[5]) == "MKSTREAM";
                    if n == 6 && !mk { return None; }
                    let s = match stream_of(m, db, &a[2]) { Err(()) => return Some(Exp::Err), Ok(s) => s };
                    if a[4].as_slice() != b"$" && !incomplete_id(&a[4]) && parse_id(&a[4]).is_none() { return Some(Exp::Err); }
                    match s { None => if mk { Exp::Is(R::ok()) } else { Exp::Err }, Some(s) => if s.groups.contains_key(&a[3]) { Exp::Err } else { Exp::Is(R::ok()) } }
                }
                "DESTROY" => {
                    if n != 4 { return Some(Exp::Err); }
                    match stream_of(m, db, &a[2]) { Err(()) => Exp::Err, Ok(None) => Exp::AnyOf(vec![Exp::Err, Exp::Is(R::Int(0))]), Ok(Some(s)) => Exp::Is(R::Int(s.groups.contains_key(&a[3]) as i64)) }
                }
                "SETID" => {
                    if n != 5 { return None; }
                    if a[4].as_slice() != b"$" && !incomplete_id(&a[4]) && parse_id(&a[4]).is_none() { return Some(Exp::Err); }
                    match stream_of(m, db, &a[2]) { Err(()) | Ok(None) => Exp::Err, Ok(Some(s)) => if s.groups.contains_key(&a[3]) { Exp::Is(R::ok()) } else { Exp::Err } }
                }
                "DELCONSUMER" => {
                    if n != 5 { return Some(Exp::Err); }
                    match stream_of(m, db, &a[2]) {
                        Err(()) => Exp::Err,
                        Ok(None) => Exp::AnyOf(vec![Exp::Err, Exp::Is(R::Int(0))]),
                        Ok(Some(s)) => match s.groups.get(&a[3]) { None => Exp::AnyOf(vec![Exp::Err, Exp::Is(R::Int(0))]), Some(g) => Exp::Is(R::Int(g.pel.values().filter(|e| e.consumer == a[4]).count() as i64)) },
                    }
                }
                "CREATECONSUMER" => {
                    if n != 5 { return Some(Exp::Err); }
                    match stream_of(m, db, &a[2]) {
                        Err(()) | Ok(None) => Exp::Err,
                        Ok(Some(s)) => match s.groups.get(&a[3]) { None => Exp::Err, Some(g) => if g.consumers.contains(&a[4]) { Exp::Is(R::Int(0)) } else { Exp::AnyOf(vec![Exp::Is(R::Int(1)), Exp::Is(R::Int(0))]) } },
                    }
                }
                _ => return None,
            }
        }
        "XREADGROUP" => {
            let p = match parse_xreadgroup(a) { Some(p) => p, None => return None };
            let mut want = Vec::new();
            let mut missing = false;
            for (key, idb) in p.keys.iter().zip(p.ids.iter()) {
                if idb.as_slice() != b">" { return None; } // history reads: not modelled
                let s = match stream_of(m, db, key) { Err(()) => return Some(Exp::Err), Ok(s) => s };
                // a missing key is an error in Redis; skipping it (and serving the others) is tolerated
                let s = match s { None => { missing = true; continue; } Some(s) => s };
                let g = match s.groups.get(&p.group) { None => return Some(Exp::Err), Some(g) => g };
                let mut v = s.after(g.last_delivered);
                if let Some(c) = p.count { v.truncate(c); }
                if !v.is_empty() { want.push((key.clone(), v)); }
            }
            if missing { Exp::AnyOf(vec![Exp::Err, xread_exp(want)]) } else { xread_exp(want) }
        }
        "XACK" => {
            if n < 4 { return Some(Exp::Err); }
            let mut ids = BTreeSet::new();
            for b in &a[3..] { match parse_id(b) { Some(id) => { ids.insert(id); } None => return Some(Exp::Err) } }
            match stream_of(m, db, &a[1]) {
                Err(()) => Exp::Err,
                Ok(None) => Exp::Is(R::Int(0)),
                Ok(Some(s)) => match s.groups.get(&a[2]) { None => Exp::AnyOf(vec![Exp::Is(R::Int(0)), Exp::Err]), Some(g) => Exp::Is(R::Int(ids.iter().filter(|id| g.pel.contains_key(id)).count() as i64)) },
            }
        }
        "XPENDING" => {
            if n != 3 && n != 6 && n != 7 { return None; }
            let s = match stream_of(m, db, &a[1]) { Err(()) => return Some(Exp::Err), Ok(s) => s };
            let g = match s.and_then(|s| s.groups.get(&a[2])) { None => return Some(Exp::AnyOf(vec![Exp::Err, Exp::Is(R::NilArr), Exp::Is(R::Nil)])), Some(g) => g };
            if n == 3 { return Some(pending_summary_exp(g)); }
            let (lo, hi) = match (bound(&a[3]), bound(&a[4])) { (Some(l), Some(h)) => (l, h), _ => return Some(Exp::Err) };
            let count = match strict_i64(&a[5]) { Some(c) => c, None => return Some(Exp::Err) };
            if count < 0 { return Some(Exp::AnyOf(vec![Exp::Err, any_empty()])); }
            let who = a.get(6);
            let rows: Vec<(Id, Bytes, i64, u64)> = if lo > hi { vec![] } else {
                g.pel.range(lo..=hi).filter(|(_, e)| who.map_or(true, |w| &e.consumer == w)).take(count as usize)
                    .map(|(id, e)| (*id, e.consumer.clone(), idle_ms(real_ns, e.last_delivery), e.count)).collect()
            };
            pending_rows_exp(rows)
        }
        "XCLAIM" => {
            if n < 6 { return Some(Exp::Err); }
            let min_idle = match strict_i64(&a[4]) { Some(v) if v >= 0 => v, Some(_) => return None, None => return Some(Exp::Err) };
            let p = match parse_xclaim(a) { Some(p) => p, None => return None };
            if p.force || p.other_opts { return None; }
            let s = match stream_of(m, db, &a[1]) { Err(()) => return Some(Exp::Err), Ok(s) => s };
            let s = match s { None => return Some(Exp::AnyOf(vec![Exp::Err, any_empty()])), Some(s) => s };
            let g = match s.groups.get(&a[2]) { None => return Some(Exp::Err), Some(g) => g };
            // ids are processed one after the other: a repeated id is claimed (and returned) again
            // only if it passes the idle test again, i.e. only with a threshold of 0
            let mut done = BTreeSet::new();
            let mut claimed: Vec<Id> = Vec::new();
            for id in &p.ids {
                if let Some(e) = g.pel.get(id) {
                    let idle = if done.contains(id) { 0 } else { idle_ms(real_ns, e.last_delivery) };
                    if idle >= min_idle && s.entries.contains_key(id) { claimed.push(*id); done.insert(*id); }
                }
            }
            if p.justid { Exp::Is(R::Arr(claimed.iter().map(|id| R::Bulk(id_str(*id))).collect())) }
            else { entries_exp(claimed.iter().map(|id| entry_reply(*id, &s.entries[id])).collect()) }
        }
        _ => return None,
    })
}

/// State transition; only called when the reply was acceptable and not an error.
pub fn transition(m: &mut Model, db: usize, name: &str, a: &[Bytes], now: u64, actual: &R) {
    let real_ns = now as i128 + m.real_off as i128;
    let n = a.len();
    let mut soft = false;
    {
        let d = &mut m.dbs[db];
        let stream_mut = |d: &mut super::keyspace::Db, key: &Bytes| -> Option<*mut StreamM> { match d.map.get_mut(key) { Some(Entry { val: Val::Stream(s), .. }) => Some(s as *mut StreamM), _ => None } };
        match name {
            "XADD" => {
                if let (Some((_, fields)), R::Bulk(b)) = (xadd_parts(a), actual) {
                    if let Some(id) = parse_id(b) {
                        let e = d.map.entry(a[1].clone()).or_insert_with(|| Entry { val: Val::Stream(StreamM::default()), deadline: None });
                        if let Val::Stream(s) = &mut e.val {
                            // the field list as sent; a repeated field name keeps every pair
                            s.entries.insert(id, fields);
                            s.last_id = id;
                            if id > s.max_ever { s.max_ever = id; }
                        }
                    }
                }
            }
            "XDEL" => {
                if let Some(s) = stream_mut(d, &a[1]) { let s = unsafe { &mut *s }; for b in &a[2..] { if let Some(id) = parse_id(b) { s.entries.remove(&id); } } }
            }
            "XTRIM" => {
                if let (Some(s), R::Int(k)) = (stream_mut(d, &a[1]), actual) { let s = unsafe { &mut *s }; for _ in 0..*k { let first = s.entries.keys().next().copied(); if let Some(f) = first { s.entries.remove(&f); } } }
            }
            "XGROUP" => {
                match upper(&a[1]).as_str() {
                    "CREATE" => {
                        let e = d.map.entry(a[2].clone()).or_insert_with(|| Entry { val: Val::Stream(StreamM::default()), deadline: None });
                        if let Val::Stream(s) = &mut e.val {
                            let start = if a[4].as_slice() == b"$" { s.last_id } else if incomplete_id(&a[4]) { (dec_u64(&a[4]).unwrap(), 0) } else { parse_id(&a[4]).unwrap_or((0, 0)) };
                            s.groups.insert(a[3].clone(), GroupM { last_delivered: start, ..Default::default() });
                        }
                    }
                    "DESTROY" => { if let Some(s) = stream_mut(d, &a[2]) { unsafe { &mut *s }.groups.remove(&a[3]); } }
                    "SETID" => {
                        if let Some(s) = stream_mut(d, &a[2]) { let s = unsafe { &mut *s };
                            let id = if a[4].as_slice() == b"$" { s.last_id } else if incomplete_id(&a[4]) { (dec_u64(&a[4]).unwrap(), 0) } else { parse_id(&a[4]).unwrap_or((0, 0)) };
                            if let Some(g) = s.groups.get_mut(&a[3]) { g.last_delivered = id; }
                        }
                    }
                    "DELCONSUMER" => {
                        if let Some(s) = stream_mut(d, &a[2]) { if let Some(g) = unsafe { &mut *s }.groups.get_mut(&a[3]) { g.pel.retain(|_, e| e.consumer != a[4]); g.consumers.remove(&a[4]); } }
                    }
                    "CREATECONSUMER" => {
                        if let Some(s) = stream_mut(d, &a[2]) { if let Some(g) = unsafe { &mut *s }.groups.get_mut(&a[3]) { g.consumers.insert(a[4].clone()); } }
                    }
                    _ => {}
                }
            }
            "XREADGROUP" => {
                if let Some(p) = parse_xreadgroup(a) {
                    for key in &p.keys {
                        if let Some(s) = stream_mut(d, key) { let s = unsafe { &mut *s };
                            let ids: Vec<Id> = match s.groups.get(&p.group) { None => continue, Some(g) => { let mut v: Vec<Id> = s.entries.keys().filter(|k| **k > g.last_delivered).copied().collect(); if let Some(c) = p.count { v.truncate(c); } v } };
                            let g = s.groups.get_mut(&p.group).unwrap();
                            if !ids.is_empty() { g.consumers.insert(p.consumer.clone()); }
                            for id in &ids {
                                if !p.noack { g.pel.insert(*id, PelE { consumer: p.consumer.clone(), count: 1, last_delivery: real_ns }); }
                                if *id > g.last_delivered { g.last_delivered = *id; }
                            }
                        }
                    }
                }
            }
            "XACK" => {
                if let Some(s) = stream_mut(d, &a[1]) { if let Some(g) = unsafe { &mut *s }.groups.get_mut(&a[2]) { for b in &a[3..] { if let Some(id) = parse_id(b) { g.pel.remove(&id); } } } }
            }
            "XCLAIM" => {
                if let (Some(p), Some(min_idle)) = (parse_xclaim(a), strict_i64(&a[4])) {
                    if let Some(s) = stream_mut(d, &a[1]) { let s = unsafe { &mut *s };
                        let present: BTreeSet<Id> = s.entries.keys().copied().collect();
                        if let Some(g) = s.groups.get_mut(&a[2]) {
                            let mut seen = BTreeSet::new();
                            for id in &p.ids {
                                if !seen.insert(*id) { continue; }
                                let due = g.pel.get(id).map_or(false, |e| idle_ms(real_ns, e.last_delivery) >= min_idle);
                                if !due { continue; }
                                if !present.contains(id) {
                                    // a pending id whose entry was deleted: dropped from the pending list by current
                                    // Redis, still transferred by older ones; follow the implementation
                                    soft = true;
                                    continue;
                                }
                                let e = g.pel.get_mut(id).unwrap();
                                e.consumer = a[3].clone();
                                e.last_delivery = real_ns;
                                if !p.justid { e.count += 1; }
                                g.consumers.insert(a[3].clone());
                            }
                        }
                    }
                }
            }
            _ => {}
        }
    }
    let _ = n;
    if soft { m.soft_resync = true; }
}
