//! Reference model of one stream (entries, last id, consumer groups). Filled in by C15/C16.
#![allow(dead_code)]
use std::collections::BTreeMap;
pub type Bytes = Vec<u8>;
pub type Id = (u64, u64);

#[derive(Clone, Debug, PartialEq, Default)]
pub struct GroupM {
    pub last_delivered: Id,
    /// id -> (consumer, delivery_count, last_delivery_real_ms)
    pub pel: BTreeMap<Id, (Bytes, u64, u64)>,
    pub consumers: BTreeMap<Bytes, ()>,
}

#[derive(Clone, Debug, PartialEq, Default)]
pub struct StreamM {
    pub entries: BTreeMap<Id, Vec<(Bytes, Bytes)>>,
    pub last_id: Id,
    /// greatest id ever added (never decreases)
    pub max_ever: Id,
    pub groups: BTreeMap<Bytes, GroupM>,
}
