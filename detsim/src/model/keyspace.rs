//! Executable reference model of the Redis key space (strings, keys, lists, sets, hashes, sorted
//! sets, expiry) — written from the Redis documentation, no ferrous code inside.
//!
//! `Model::apply(db, args, now, actual)` computes the set of acceptable replies for the command in
//! the current model state, checks the actual reply against it (§3.2 comparison policy), and
//! performs the state transition (following the implementation's choice for random picks).
#![allow(dead_code)]

use crate::resp::R;
use std::collections::{BTreeMap, BTreeSet, VecDeque};

pub type Bytes = Vec<u8>;

#[derive(Clone, Debug, PartialEq)]
pub enum Val {
    Str(Bytes),
    List(VecDeque<Bytes>),
    Set(BTreeSet<Bytes>),
    Hash(BTreeMap<Bytes, Bytes>),
    ZSet(BTreeMap<Bytes, f64>),
    Stream(super::stream::StreamM),
}
impl Val {
    pub fn type_name(&self) -> &'static str {
        match self { Val::Str(_) => "string", Val::List(_) => "list", Val::Set(_) => "set", Val::Hash(_) => "hash", Val::ZSet(_) => "zset", Val::Stream(_) => "stream" }
    }
}

#[derive(Clone, Debug, PartialEq)]
pub struct Entry { pub val: Val, pub deadline: Option<u64> }

#[derive(Clone, Debug, Default)]
pub struct Db { pub map: BTreeMap<Bytes, Entry> }

#[derive(Clone, Debug)]
pub struct Model {
    pub dbs: Vec<Db>,
    /// realtime clock = virtual monotonic clock + real_off (ns); set by the executor
    pub real_off: i64,
    /// the last transition met a case where Redis versions differ in the resulting state: the
    /// executor re-reads the stored state without reporting anything
    pub soft_resync: bool,
}

/// Reply predicate with a description (for shapes the plain variants cannot express).
#[derive(Clone)]
pub struct Pred { pub kind: &'static str, pub desc: String, pub f: std::rc::Rc<dyn Fn(&R) -> bool> }
impl std::fmt::Debug for Pred { fn fmt(&self, f: &mut std::fmt::Formatter<'_>) -> std::fmt::Result { write!(f, "Pred({})", self.desc) } }

/// What the model accepts as a reply.
#[derive(Clone, Debug)]
pub enum Exp {
    Is(R),
    Err,
    /// array whose elements may come in any order
    Unordered(Vec<R>),
    /// flat array of pairs (k, v, k, v...) whose pairs may come in any order
    UnorderedPairs(Vec<(R, R)>),
    /// bulk string that parses to this float
    Float(f64),
    /// array of member, score, member, score ... with numeric score comparison
    MembersScores(Vec<(Bytes, f64)>),
    /// integer within [lo, hi]
    IntRange(i64, i64),
    AnyOf(Vec<Exp>),
    /// one bulk element of this set
    PickOne(Vec<Bytes>),
    /// array of `n` elements from the set; distinct if `distinct`
    PickMany { from: Vec<Bytes>, n: usize, distinct: bool },
    /// no comparison (don't-care instant)
    Any,
    Pred(Pred),
}

#[derive(Clone, Debug)]
pub struct Mismatch { pub kind: String, pub expected: String }

pub fn parse_f64_reply(b: &[u8]) -> Option<f64> {
    let s = std::str::from_utf8(b).ok()?;
    match s { "inf" | "+inf" | "Infinity" | "+Infinity" => Some(f64::INFINITY), "-inf" | "-Infinity" => Some(f64::NEG_INFINITY), _ => s.parse::<f64>().ok() }
}
fn feq(a: f64, b: f64) -> bool { a == b || (a.is_nan() && b.is_nan()) }

pub fn matches(exp: &Exp, actual: &R) -> bool {
    match exp {
        Exp::Any => true,
        Exp::Pred(p) => (p.f)(actual),
        Exp::Is(r) => r == actual,
        Exp::Err => actual.is_err(),
        Exp::Unordered(v) => match actual {
            R::Arr(a) => { if a.len() != v.len() { return false; } let mut x: Vec<String> = a.iter().map(|r| format!("{:?}", r)).collect(); let mut y: Vec<String> = v.iter().map(|r| format!("{:?}", r)).collect(); x.sort(); y.sort(); x == y }
            R::NilArr => v.is_empty(),
            _ => false,
        },
        Exp::UnorderedPairs(v) => match actual {
            R::Arr(a) => { if a.len() != v.len() * 2 { return false; } let mut x: Vec<String> = a.chunks(2).map(|c| format!("{:?}{:?}", c[0], c[1])).collect(); let mut y: Vec<String> = v.iter().map(|(k, val)| format!("{:?}{:?}", k, val)).collect(); x.sort(); y.sort(); x == y }
            R::NilArr => v.is_empty(),
            _ => false,
        },
        Exp::Float(f) => match actual { R::Bulk(b) => parse_f64_reply(b).map_or(false, |x| feq(x, *f)), R::Double(b) => parse_f64_reply(b).map_or(false, |x| feq(x, *f)), _ => false },
        Exp::MembersScores(v) => match actual {
            R::Arr(a) => {
                if a.len() != v.len() * 2 { return false; }
                a.chunks(2).zip(v.iter()).all(|(c, (m, s))| matches!(&c[0], R::Bulk(b) if b == m) && matches!(&c[1], R::Bulk(b) if parse_f64_reply(b).map_or(false, |x| feq(x, *s))))
            }
            R::NilArr => v.is_empty(),
            _ => false,
        },
        Exp::IntRange(lo, hi) => matches!(actual, R::Int(i) if i >= lo && i <= hi),
        Exp::AnyOf(v) => v.iter().any(|e| matches(e, actual)),
        Exp::PickOne(from) => matches!(actual, R::Bulk(b) if from.contains(b)),
        Exp::PickMany { from, n, distinct } => match actual {
            R::Arr(a) => {
                if a.len() != *n { return false; }
                let mut seen = BTreeSet::new();
                for e in a { match e { R::Bulk(b) => { if !from.contains(b) { return false; } if *distinct && !seen.insert(b.clone()) { return false; } } _ => return false } }
                true
            }
            R::NilArr => *n == 0,
            _ => false,
        },
    }
}

pub fn show_exp(e: &Exp) -> String {
    match e {
        Exp::Is(r) => r.short(),
        Exp::Err => "error".into(),
        Exp::Unordered(v) => format!("unordered{}", R::Arr(v.clone()).short()),
        Exp::UnorderedPairs(v) => format!("unordered-pairs({})", v.len()),
        Exp::Float(f) => format!("float {}", f),
        Exp::MembersScores(v) => format!("members+scores {:?}", v.iter().take(8).map(|(m, s)| (crate::resp::escape(m), *s)).collect::<Vec<_>>()),
        Exp::IntRange(a, b) => format!("int in [{}, {}]", a, b),
        Exp::AnyOf(v) => v.iter().map(show_exp).collect::<Vec<_>>().join(" | "),
        Exp::PickOne(f) => format!("one of {} members", f.len()),
        Exp::PickMany { from, n, distinct } => format!("{} {}members of {}", n, if *distinct { "distinct " } else { "" }, from.len()),
        Exp::Any => "any".into(),
        Exp::Pred(p) => p.desc.clone(),
    }
}
pub fn exp_kind(e: &Exp) -> &'static str {
    match e {
        Exp::Is(r) => r.kind(),
        Exp::Err => "error",
        Exp::Unordered(v) => if v.is_empty() { "emptyarr" } else { "arr" },
        Exp::UnorderedPairs(v) => if v.is_empty() { "emptyarr" } else { "arr" },
        Exp::Float(_) => "bulk",
        Exp::MembersScores(v) => if v.is_empty() { "emptyarr" } else { "arr" },
        Exp::IntRange(..) => "int",
        Exp::AnyOf(v) => v.first().map(exp_kind).unwrap_or("any"),
        Exp::PickOne(_) => "bulk",
        Exp::PickMany { n, .. } => if *n == 0 { "emptyarr" } else { "arr" },
        Exp::Any => "any",
        Exp::Pred(p) => p.kind,
    }
}

// ---------------------------------------------------------------------------------------------
// helpers

/// Redis string2ll: strict decimal i64 (no '+', no leading zeros, no spaces, "-0" invalid).
pub fn strict_i64(b: &[u8]) -> Option<i64> {
    if b.is_empty() || b.len() > 20 { return None; }
    if b == b"0" { return Some(0); }
    let (neg, digits) = if b[0] == b'-' { (true, &b[1..]) } else { (false, b) };
    if digits.is_empty() || digits[0] == b'0' || !digits.iter().all(|c| c.is_ascii_digit()) { return None; }
    let s = std::str::from_utf8(b).ok()?;
    let _ = neg;
    s.parse::<i64>().ok()
}
/// Is this argument an integer in a form on which strict and lenient parsers agree?
pub fn plain_int(b: &[u8]) -> bool { strict_i64(b).is_some() }

/// Score argument as Redis' strtod-based parser accepts it (NaN refused).
pub fn parse_score(b: &[u8]) -> Option<f64> {
    let s = std::str::from_utf8(b).ok()?;
    if s.is_empty() || s.starts_with(' ') || s.ends_with(' ') { return None; }
    let v = match s.to_ascii_lowercase().as_str() {
        "inf" | "+inf" | "infinity" | "+infinity" => f64::INFINITY,
        "-inf" | "-infinity" => f64::NEG_INFINITY,
        _ => s.parse::<f64>().ok()?,
    };
    if v.is_nan() { None } else { Some(v) }
}

pub fn glob_match(p: &[u8], s: &[u8]) -> bool {
    let (mut pi, mut si) = (0usize, 0usize);
    while pi < p.len() {
        match p[pi] {
            b'*' => {
                while pi + 1 < p.len() && p[pi + 1] == b'*' { pi += 1; }
                if pi + 1 == p.len() { return true; }
                for k in si..=s.len() { if glob_match(&p[pi + 1..], &s[k..]) { return true; } }
                return false;
            }
            b'?' => { if si >= s.len() { return false; } si += 1; pi += 1; }
            b'[' => {
                if si >= s.len() { return false; }
                pi += 1;
                let not = pi < p.len() && p[pi] == b'^';
                if not { pi += 1; }
                let mut m = false;
                loop {
                    if pi >= p.len() { break; }
                    if p[pi] == b'\\' && pi + 1 < p.len() { pi += 1; if p[pi] == s[si] { m = true; } }
                    else if p[pi] == b']' { break; }
                    else if pi + 2 < p.len() && p[pi + 1] == b'-' && p[pi + 2] != b']' {
                        let (mut a, mut z) = (p[pi], p[pi + 2]);
                        if a > z { std::mem::swap(&mut a, &mut z); }
                        pi += 2;
                        if s[si] >= a && s[si] <= z { m = true; }
                    } else if p[pi] == s[si] { m = true; }
                    pi += 1;
                }
                if not { m = !m; }
                if !m { return false; }
                si += 1;
                if pi < p.len() { pi += 1; }
            }
            b'\\' if pi + 1 < p.len() => { pi += 1; if si >= s.len() || p[pi] != s[si] { return false; } si += 1; pi += 1; }
            c => { if si >= s.len() || c != s[si] { return false; } si += 1; pi += 1; }
        }
    }
    si == s.len()
}

fn bulk(b: &[u8]) -> R { R::Bulk(b.to_vec()) }
fn ok() -> R { R::Simple(b"OK".to_vec()) }
fn empty_arr() -> Exp { Exp::AnyOf(vec![Exp::Is(R::Arr(vec![])), Exp::Is(R::NilArr)]) }

/// start/stop normalisation shared by LRANGE, LTRIM, ZRANGE; returns None for an empty range.
pub fn norm_range(len: usize, start: i64, stop: i64) -> Option<(usize, usize)> {
    let len = len as i64;
    let mut s = if start < 0 { len.saturating_add(start) } else { start };
    let mut e = if stop < 0 { len.saturating_add(stop) } else { stop };
    if s < 0 { s = 0; }
    if e >= len { e = len - 1; }
    if s > e || s >= len || e < 0 { return None; }
    Some((s as usize, e as usize))
}

pub fn zsorted(z: &BTreeMap<Bytes, f64>) -> Vec<(Bytes, f64)> {
    let mut v: Vec<(Bytes, f64)> = z.iter().map(|(k, s)| (k.clone(), *s)).collect();
    v.sort_by(|a, b| a.1.partial_cmp(&b.1).unwrap_or(std::cmp::Ordering::Equal).then_with(|| a.0.cmp(&b.0)));
    v
}

#[derive(Clone, Copy, Debug)]
pub struct Bound { pub v: f64, pub excl: bool }
pub fn parse_bound(b: &[u8]) -> Option<Bound> {
    if b.first() == Some(&b'(') { parse_score(&b[1..]).map(|v| Bound { v, excl: true }) } else { parse_score(b).map(|v| Bound { v, excl: false }) }
}
fn in_bounds(s: f64, lo: Bound, hi: Bound) -> bool {
    (if lo.excl { s > lo.v } else { s >= lo.v }) && (if hi.excl { s < hi.v } else { s <= hi.v })
}

enum Get<'a> { Missing, Wrong, Got(&'a mut Entry) }

impl Model {
    pub fn new() -> Model { Model { dbs: (0..16).map(|_| Db::default()).collect(), real_off: 0, soft_resync: false } }

    /// Remove every key of `db` whose deadline has passed (visible iff now < deadline).
    pub fn purge(&mut self, db: usize, now: u64) {
        // the single instant now == deadline is a don't-care: the key is kept (and `tie` reports it)
        self.dbs[db].map.retain(|_, e| e.deadline.map_or(true, |d| now <= d));
    }
    pub fn purge_all(&mut self, now: u64) { for d in 0..self.dbs.len() { self.purge(d, now); } }
    /// true if some key of `db` has its deadline exactly at `now` (don't-care instant)
    pub fn tie(&self, db: usize, now: u64) -> bool { self.dbs[db].map.values().any(|e| e.deadline == Some(now)) }

    fn drop_if_empty(&mut self, db: usize, key: &[u8]) {
        let empty = match self.dbs[db].map.get(key) {
            Some(e) => match &e.val { Val::List(l) => l.is_empty(), Val::Set(s) => s.is_empty(), Val::Hash(h) => h.is_empty(), Val::ZSet(z) => z.is_empty(), _ => false },
            None => false,
        };
        if empty { self.dbs[db].map.remove(key); }
    }
    pub fn type_of(&self, db: usize, key: &[u8]) -> &'static str { self.dbs[db].map.get(key).map(|e| e.val.type_name()).unwrap_or("none") }

    /// Apply a command. `now` = virtual monotonic ns at execution. Returns Ok(true) if the command
    /// is modelled, Ok(false) if not (no comparison made), Err on mismatch.
    pub fn apply(&mut self, db: usize, args: &[Bytes], now: u64, actual: &R) -> Result<bool, Mismatch> {
        if args.is_empty() { return Ok(false); }
        let name = String::from_utf8_lossy(&args[0]).to_uppercase();
        let tie = self.tie(db, now);
        self.purge(db, now);
        let exp = match self.expect(db, &name, args, now) { Some(e) => e, None => return Ok(false) };
        if !tie && !matches(&exp, actual) {
            return Err(Mismatch { kind: format!("exp={},got={}", exp_kind(&exp), actual.kind()), expected: show_exp(&exp) });
        }
        if tie && !matches(&exp, actual) { return Err(Mismatch { kind: "tie".into(), expected: "deadline tie: resync".into() }); }
        self.transition(db, &name, args, now, actual);
        Ok(true)
    }

    fn get<'a>(&'a self, db: usize, key: &[u8]) -> Option<&'a Entry> { self.dbs[db].map.get(key) }

    // -----------------------------------------------------------------------------------------
    // expectation (pure)

    pub fn expect(&self, db: usize, name: &str, a: &[Bytes], now: u64) -> Option<Exp> {
        let d = &self.dbs[db];
        let n = a.len();
        let wrong = |k: &[u8], t: &str| -> bool { d.map.get(k).map_or(false, |e| e.val.type_name() != t) };
        let int_arg = |b: &[u8]| -> Option<i64> { strict_i64(b) };
        Some(match name {
            // ---------------- strings
            "SET" => {
                if n < 3 { return Some(Exp::Err); }
                match parse_set_opts(&a[3..]) {
                    None => Exp::Err,
                    Some(o) => {
                        let exists = d.map.contains_key(&a[1]);
                        let e = if (o.nx && exists) || (o.xx && !exists) { Exp::Is(R::Nil) } else { Exp::Is(ok()) };
                        // a TTL so large that the absolute deadline overflows is refused by Redis; accept either
                        if o.ttl_ns.map_or(false, |t| t > HUGE_TTL_NS) { Exp::AnyOf(vec![e, Exp::Err]) } else { e }
                    }
                }
            }
            "GET" => { if n != 2 { return Some(Exp::Err); } match d.map.get(&a[1]) { None => Exp::Is(R::Nil), Some(Entry { val: Val::Str(s), .. }) => Exp::Is(bulk(s)), Some(_) => Exp::Err } }
            "MGET" => { if n < 2 { return Some(Exp::Err); } Exp::Is(R::Arr(a[1..].iter().map(|k| match d.map.get(k) { Some(Entry { val: Val::Str(s), .. }) => bulk(s), _ => R::Nil }).collect())) }
            "MSET" => { if n < 3 || n % 2 == 0 { Exp::Err } else { Exp::Is(ok()) } }
            "GETSET" => { if n != 3 { return Some(Exp::Err); } match d.map.get(&a[1]) { None => Exp::Is(R::Nil), Some(Entry { val: Val::Str(s), .. }) => Exp::Is(bulk(s)), Some(_) => Exp::Err } }
            "SETNX" => { if n != 3 { return Some(Exp::Err); } Exp::Is(R::Int(if d.map.contains_key(&a[1]) { 0 } else { 1 })) }
            "SETEX" | "PSETEX" => { if n != 4 { return Some(Exp::Err); } match int_arg(&a[2]) { Some(t) if t > 0 => { if t > (if name == "SETEX" { 4_000_000_000i64 } else { 4_000_000_000_000i64 }) { Exp::AnyOf(vec![Exp::Is(ok()), Exp::Err]) } else { Exp::Is(ok()) } } _ => Exp::Err } }
            "APPEND" => { if n != 3 { return Some(Exp::Err); } match d.map.get(&a[1]) { None => Exp::Is(R::Int(a[2].len() as i64)), Some(Entry { val: Val::Str(s), .. }) => Exp::Is(R::Int((s.len() + a[2].len()) as i64)), Some(_) => Exp::Err } }
            "STRLEN" => { if n != 2 { return Some(Exp::Err); } match d.map.get(&a[1]) { None => Exp::Is(R::Int(0)), Some(Entry { val: Val::Str(s), .. }) => Exp::Is(R::Int(s.len() as i64)), Some(_) => Exp::Err } }
            "GETRANGE" => {
                if n != 4 { return Some(Exp::Err); }
                let (s, e) = match (int_arg(&a[2]), int_arg(&a[3])) { (Some(s), Some(e)) => (s, e), _ => return Some(Exp::Err) };
                match d.map.get(&a[1]) {
                    None => Exp::Is(bulk(b"")),
                    Some(Entry { val: Val::Str(v), .. }) => Exp::Is(bulk(&getrange(v, s, e))),
                    Some(_) => Exp::Err,
                }
            }
            "SETRANGE" => {
                if n != 4 { return Some(Exp::Err); }
                let off = match int_arg(&a[2]) { Some(o) if o >= 0 => o, _ => return Some(Exp::Err) };
                let cur = match d.map.get(&a[1]) { None => 0usize, Some(Entry { val: Val::Str(v), .. }) => v.len(), Some(_) => return Some(Exp::Err) };
                if a[3].is_empty() { return Some(Exp::Is(R::Int(cur as i64))); }
                if off as u64 + a[3].len() as u64 > 512 * 1024 * 1024 { return Some(Exp::Err); }
                Exp::Is(R::Int(cur.max(off as usize + a[3].len()) as i64))
            }
            "INCR" | "DECR" | "INCRBY" | "DECRBY" => {
                let by = match name {
                    "INCR" => { if n != 2 { return Some(Exp::Err); } 1 }
                    "DECR" => { if n != 2 { return Some(Exp::Err); } -1 }
                    _ => { if n != 3 { return Some(Exp::Err); } match int_arg(&a[2]) { Some(v) => if name == "DECRBY" { match v.checked_neg() { Some(x) => x, None => return Some(Exp::Err) } } else { v }, None => return Some(Exp::Err) } }
                };
                let cur = match d.map.get(&a[1]) { None => 0, Some(Entry { val: Val::Str(v), .. }) => match strict_i64(v) { Some(x) => x, None => return Some(Exp::Err) }, Some(_) => return Some(Exp::Err) };
                match cur.checked_add(by) { Some(x) => Exp::Is(R::Int(x)), None => Exp::Err }
            }
            // ---------------- keys
            "DEL" => { if n < 2 { return Some(Exp::Err); } let mut seen = BTreeSet::new(); Exp::Is(R::Int(a[1..].iter().filter(|k| d.map.contains_key(*k) && seen.insert((*k).clone())).count() as i64)) }
            "EXISTS" => { if n < 2 { return Some(Exp::Err); } Exp::Is(R::Int(a[1..].iter().filter(|k| d.map.contains_key(*k)).count() as i64)) }
            "TYPE" => { if n != 2 { return Some(Exp::Err); } Exp::Is(R::Simple(self.type_of(db, &a[1]).as_bytes().to_vec())) }
            "RENAME" => { if n != 3 { return Some(Exp::Err); } if d.map.contains_key(&a[1]) { Exp::Is(ok()) } else { Exp::Err } }
            "RENAMENX" => { if n != 3 { return Some(Exp::Err); } if !d.map.contains_key(&a[1]) { Exp::Err } else if d.map.contains_key(&a[2]) { Exp::Is(R::Int(0)) } else { Exp::Is(R::Int(1)) } }
            "KEYS" => { if n != 2 { return Some(Exp::Err); } Exp::Unordered(d.map.keys().filter(|k| glob_match(&a[1], k)).map(|k| bulk(k)).collect()) }
            "DBSIZE" => { if n != 1 { return Some(Exp::Err); } Exp::Is(R::Int(d.map.len() as i64)) }
            "RANDOMKEY" => { if n != 1 { return Some(Exp::Err); } if d.map.is_empty() { Exp::Is(R::Nil) } else { Exp::PickOne(d.map.keys().cloned().collect()) } }
            "FLUSHDB" | "FLUSHALL" => Exp::Is(ok()),
            "ECHO" => { if n != 2 { return Some(Exp::Err); } Exp::Is(bulk(&a[1])) }
            // (only used by checks whose runs have no subscribers)
            "PUBLISH" => { if n != 3 { return Some(Exp::Err); } Exp::Is(R::Int(0)) }
            "EXPIRE" | "PEXPIRE" => { if n != 3 { return Some(Exp::Err); } match int_arg(&a[2]) { None => Exp::Err, Some(_) => Exp::Is(R::Int(if d.map.contains_key(&a[1]) { 1 } else { 0 })) } }
            "PERSIST" => { if n != 2 { return Some(Exp::Err); } Exp::Is(R::Int(match d.map.get(&a[1]) { Some(Entry { deadline: Some(_), .. }) => 1, _ => 0 })) }
            "TTL" | "PTTL" => {
                if n != 2 { return Some(Exp::Err); }
                match d.map.get(&a[1]) {
                    None => Exp::Is(R::Int(-2)),
                    Some(Entry { deadline: None, .. }) => Exp::Is(R::Int(-1)),
                    Some(Entry { deadline: Some(dl), .. }) => {
                        let rem = dl.saturating_sub(now);
                        if rem == 0 { return Some(Exp::Any); }
                        let unit: u64 = if name == "TTL" { 1_000_000_000 } else { 1_000_000 };
                        // deadlines beyond ~3 years may have been saturated by either side: any large value is fine
                        if rem > 100_000_000_000_000_000 { Exp::IntRange((100_000_000_000_000_000 / unit) as i64, i64::MAX) }
                        else { Exp::IntRange((rem / unit) as i64, ((rem + unit - 1) / unit) as i64) }
                    }
                }
            }
            // ---------------- lists
            "LPUSH" | "RPUSH" => { if n < 3 { return Some(Exp::Err); } match d.map.get(&a[1]) { None => Exp::Is(R::Int((n - 2) as i64)), Some(Entry { val: Val::List(l), .. }) => Exp::Is(R::Int((l.len() + n - 2) as i64)), Some(_) => Exp::Err } }
            "LPOP" | "RPOP" => { if n != 2 { return None; } match d.map.get(&a[1]) { None => Exp::Is(R::Nil), Some(Entry { val: Val::List(l), .. }) => Exp::Is(bulk(if name == "LPOP" { l.front().unwrap() } else { l.back().unwrap() })), Some(_) => Exp::Err } }
            // non-blocking evaluation of a blocking pop (data available, or inside MULTI/EXEC): first non-empty list wins
            "BLPOP" | "BRPOP" => {
                if n < 3 { return Some(Exp::Err); }
                let mut out = None;
                for k in &a[1..n - 1] {
                    match d.map.get(k) { None => {}, Some(Entry { val: Val::List(l), .. }) => { if let Some(e) = if name == "BLPOP" { l.front() } else { l.back() } { out = Some(Exp::Is(R::Arr(vec![bulk(k), bulk(e)]))); break; } } Some(_) => return Some(Exp::Err) }
                }
                out.unwrap_or(Exp::AnyOf(vec![Exp::Is(R::NilArr), Exp::Is(R::Nil)]))
            }
            "LLEN" => { if n != 2 { return Some(Exp::Err); } match d.map.get(&a[1]) { None => Exp::Is(R::Int(0)), Some(Entry { val: Val::List(l), .. }) => Exp::Is(R::Int(l.len() as i64)), Some(_) => Exp::Err } }
            "LRANGE" => {
                if n != 4 { return Some(Exp::Err); }
                let (s, e) = match (int_arg(&a[2]), int_arg(&a[3])) { (Some(s), Some(e)) => (s, e), _ => return Some(Exp::Err) };
                match d.map.get(&a[1]) {
                    None => empty_arr(),
                    Some(Entry { val: Val::List(l), .. }) => match norm_range(l.len(), s, e) { None => empty_arr(), Some((s, e)) => Exp::Is(R::Arr(l.iter().skip(s).take(e - s + 1).map(|x| bulk(x)).collect())) },
                    Some(_) => Exp::Err,
                }
            }
            "LINDEX" => {
                if n != 3 { return Some(Exp::Err); }
                let i = match int_arg(&a[2]) { Some(i) => i, None => return Some(Exp::Err) };
                match d.map.get(&a[1]) {
                    None => Exp::Is(R::Nil),
                    Some(Entry { val: Val::List(l), .. }) => { let idx = if i < 0 { l.len() as i64 + i } else { i }; if idx < 0 || idx >= l.len() as i64 { Exp::Is(R::Nil) } else { Exp::Is(bulk(&l[idx as usize])) } }
                    Some(_) => Exp::Err,
                }
            }
            "LSET" => {
                if n != 4 { return Some(Exp::Err); }
                let i = match int_arg(&a[2]) { Some(i) => i, None => return Some(Exp::Err) };
                match d.map.get(&a[1]) {
                    None => Exp::Err,
                    Some(Entry { val: Val::List(l), .. }) => { let idx = if i < 0 { l.len() as i64 + i } else { i }; if idx < 0 || idx >= l.len() as i64 { Exp::Err } else { Exp::Is(ok()) } }
                    Some(_) => Exp::Err,
                }
            }
            "LTRIM" => { if n != 4 { return Some(Exp::Err); } if int_arg(&a[2]).is_none() || int_arg(&a[3]).is_none() { return Some(Exp::Err); } if wrong(&a[1], "list") { Exp::Err } else { Exp::Is(ok()) } }
            "LREM" => {
                if n != 4 { return Some(Exp::Err); }
                let c = match int_arg(&a[2]) { Some(c) => c, None => return Some(Exp::Err) };
                match d.map.get(&a[1]) {
                    None => Exp::Is(R::Int(0)),
                    Some(Entry { val: Val::List(l), .. }) => { let total = l.iter().filter(|x| **x == a[3]).count() as i64; Exp::Is(R::Int(if c == 0 { total } else { total.min(c.unsigned_abs().min(i64::MAX as u64) as i64) })) }
                    Some(_) => Exp::Err,
                }
            }
            // ---------------- sets
            "SADD" => { if n < 3 { return Some(Exp::Err); } match d.map.get(&a[1]) { None => Exp::Is(R::Int(a[2..].iter().collect::<BTreeSet<_>>().len() as i64)), Some(Entry { val: Val::Set(s), .. }) => Exp::Is(R::Int(a[2..].iter().filter(|m| !s.contains(*m)).collect::<BTreeSet<_>>().len() as i64)), Some(_) => Exp::Err } }
            "SREM" => { if n < 3 { return Some(Exp::Err); } match d.map.get(&a[1]) { None => Exp::Is(R::Int(0)), Some(Entry { val: Val::Set(s), .. }) => Exp::Is(R::Int(a[2..].iter().filter(|m| s.contains(*m)).collect::<BTreeSet<_>>().len() as i64)), Some(_) => Exp::Err } }
            "SMEMBERS" => { if n != 2 { return Some(Exp::Err); } match d.map.get(&a[1]) { None => empty_arr(), Some(Entry { val: Val::Set(s), .. }) => Exp::Unordered(s.iter().map(|m| bulk(m)).collect()), Some(_) => Exp::Err } }
            "SISMEMBER" => { if n != 3 { return Some(Exp::Err); } match d.map.get(&a[1]) { None => Exp::Is(R::Int(0)), Some(Entry { val: Val::Set(s), .. }) => Exp::Is(R::Int(s.contains(&a[2]) as i64)), Some(_) => Exp::Err } }
            "SCARD" => { if n != 2 { return Some(Exp::Err); } match d.map.get(&a[1]) { None => Exp::Is(R::Int(0)), Some(Entry { val: Val::Set(s), .. }) => Exp::Is(R::Int(s.len() as i64)), Some(_) => Exp::Err } }
            "SUNION" | "SINTER" | "SDIFF" => {
                if n < 2 { return Some(Exp::Err); }
                let mut sets: Vec<BTreeSet<Bytes>> = Vec::new();
                let mut missing_seen = false;
                for k in &a[1..] { match d.map.get(k) {
                    None => { sets.push(BTreeSet::new()); missing_seen = true; }
                    Some(Entry { val: Val::Set(s), .. }) => sets.push(s.clone()),
                    // SINTER: Redis versions differ on whether keys after a missing one are still type-checked
                    Some(_) => return Some(if name == "SINTER" && missing_seen { Exp::AnyOf(vec![Exp::Err, empty_arr()]) } else { Exp::Err }),
                } }
                let mut acc = sets[0].clone();
                for s in &sets[1..] {
                    acc = match name { "SUNION" => acc.union(s).cloned().collect(), "SINTER" => acc.intersection(s).cloned().collect(), _ => acc.difference(s).cloned().collect() };
                }
                if acc.is_empty() { empty_arr() } else { Exp::Unordered(acc.iter().map(|m| bulk(m)).collect()) }
            }
            "SPOP" => {
                if n != 2 && n != 3 { return Some(Exp::Err); }
                let members: Vec<Bytes> = match d.map.get(&a[1]) { None => vec![], Some(Entry { val: Val::Set(s), .. }) => s.iter().cloned().collect(), Some(_) => return Some(Exp::Err) };
                if n == 2 { if members.is_empty() { Exp::Is(R::Nil) } else { Exp::PickOne(members) } }
                else { match int_arg(&a[2]) { Some(c) if c >= 0 => { let k = (c as usize).min(members.len()); Exp::PickMany { from: members, n: k, distinct: true } } _ => Exp::Err } }
            }
            "SRANDMEMBER" => {
                if n != 2 && n != 3 { return Some(Exp::Err); }
                let members: Vec<Bytes> = match d.map.get(&a[1]) { None => vec![], Some(Entry { val: Val::Set(s), .. }) => s.iter().cloned().collect(), Some(_) => return Some(Exp::Err) };
                if n == 2 { if members.is_empty() { Exp::Is(R::Nil) } else { Exp::PickOne(members) } }
                else { match int_arg(&a[2]) {
                    Some(c) if c >= 0 => { let k = (c as usize).min(members.len()); Exp::PickMany { from: members, n: k, distinct: true } }
                    Some(c) => { if members.is_empty() { empty_arr() } else { Exp::PickMany { from: members, n: c.unsigned_abs() as usize, distinct: false } } }
                    None => Exp::Err } }
            }
            // ---------------- hashes
            "HSET" | "HMSET" => {
                if n < 4 || n % 2 != 0 { return Some(Exp::Err); }
                let h = match d.map.get(&a[1]) { None => None, Some(Entry { val: Val::Hash(h), .. }) => Some(h), Some(_) => return Some(Exp::Err) };
                if name == "HMSET" { Exp::Is(ok()) } else {
                    let mut newf = BTreeSet::new();
                    for p in a[2..].chunks(2) { if h.map_or(true, |h| !h.contains_key(&p[0])) { newf.insert(p[0].clone()); } }
                    Exp::Is(R::Int(newf.len() as i64))
                }
            }
            "HGET" => { if n != 3 { return Some(Exp::Err); } match d.map.get(&a[1]) { None => Exp::Is(R::Nil), Some(Entry { val: Val::Hash(h), .. }) => Exp::Is(h.get(&a[2]).map(|v| bulk(v)).unwrap_or(R::Nil)), Some(_) => Exp::Err } }
            "HMGET" => { if n < 3 { return Some(Exp::Err); } match d.map.get(&a[1]) { None => Exp::Is(R::Arr(a[2..].iter().map(|_| R::Nil).collect())), Some(Entry { val: Val::Hash(h), .. }) => Exp::Is(R::Arr(a[2..].iter().map(|f| h.get(f).map(|v| bulk(v)).unwrap_or(R::Nil)).collect())), Some(_) => Exp::Err } }
            "HGETALL" => { if n != 2 { return Some(Exp::Err); } match d.map.get(&a[1]) { None => empty_arr(), Some(Entry { val: Val::Hash(h), .. }) => Exp::UnorderedPairs(h.iter().map(|(k, v)| (bulk(k), bulk(v))).collect()), Some(_) => Exp::Err } }
            "HDEL" => { if n < 3 { return Some(Exp::Err); } match d.map.get(&a[1]) { None => Exp::Is(R::Int(0)), Some(Entry { val: Val::Hash(h), .. }) => Exp::Is(R::Int(a[2..].iter().filter(|f| h.contains_key(*f)).collect::<BTreeSet<_>>().len() as i64)), Some(_) => Exp::Err } }
            "HLEN" => { if n != 2 { return Some(Exp::Err); } match d.map.get(&a[1]) { None => Exp::Is(R::Int(0)), Some(Entry { val: Val::Hash(h), .. }) => Exp::Is(R::Int(h.len() as i64)), Some(_) => Exp::Err } }
            "HEXISTS" => { if n != 3 { return Some(Exp::Err); } match d.map.get(&a[1]) { None => Exp::Is(R::Int(0)), Some(Entry { val: Val::Hash(h), .. }) => Exp::Is(R::Int(h.contains_key(&a[2]) as i64)), Some(_) => Exp::Err } }
            "HKEYS" => { if n != 2 { return Some(Exp::Err); } match d.map.get(&a[1]) { None => empty_arr(), Some(Entry { val: Val::Hash(h), .. }) => Exp::Unordered(h.keys().map(|k| bulk(k)).collect()), Some(_) => Exp::Err } }
            "HVALS" => { if n != 2 { return Some(Exp::Err); } match d.map.get(&a[1]) { None => empty_arr(), Some(Entry { val: Val::Hash(h), .. }) => Exp::Unordered(h.values().map(|k| bulk(k)).collect()), Some(_) => Exp::Err } }
            "HINCRBY" => {
                if n != 4 { return Some(Exp::Err); }
                let by = match int_arg(&a[3]) { Some(v) => v, None => return Some(Exp::Err) };
                let cur = match d.map.get(&a[1]) { None => 0, Some(Entry { val: Val::Hash(h), .. }) => match h.get(&a[2]) { None => 0, Some(v) => match strict_i64(v) { Some(x) => x, None => return Some(Exp::Err) } }, Some(_) => return Some(Exp::Err) };
                match cur.checked_add(by) { Some(x) => Exp::Is(R::Int(x)), None => Exp::Err }
            }
            // ---------------- sorted sets
            "ZADD" => {
                if n < 4 || n % 2 != 0 { return Some(Exp::Err); }
                let z = match d.map.get(&a[1]) { None => None, Some(Entry { val: Val::ZSet(z), .. }) => Some(z), Some(_) => return Some(Exp::Err) };
                let mut newm = BTreeSet::new();
                for p in a[2..].chunks(2) {
                    if parse_score(&p[0]).is_none() { return Some(Exp::Err); }
                    if z.map_or(true, |z| !z.contains_key(&p[1])) { newm.insert(p[1].clone()); }
                }
                Exp::Is(R::Int(newm.len() as i64))
            }
            "ZREM" => { if n < 3 { return Some(Exp::Err); } match d.map.get(&a[1]) { None => Exp::Is(R::Int(0)), Some(Entry { val: Val::ZSet(z), .. }) => Exp::Is(R::Int(a[2..].iter().filter(|m| z.contains_key(*m)).collect::<BTreeSet<_>>().len() as i64)), Some(_) => Exp::Err } }
            "ZSCORE" => { if n != 3 { return Some(Exp::Err); } match d.map.get(&a[1]) { None => Exp::Is(R::Nil), Some(Entry { val: Val::ZSet(z), .. }) => z.get(&a[2]).map(|s| Exp::Float(*s)).unwrap_or(Exp::Is(R::Nil)), Some(_) => Exp::Err } }
            "ZCARD" => { if n != 2 { return Some(Exp::Err); } match d.map.get(&a[1]) { None => Exp::Is(R::Int(0)), Some(Entry { val: Val::ZSet(z), .. }) => Exp::Is(R::Int(z.len() as i64)), Some(_) => Exp::Err } }
            "ZRANK" | "ZREVRANK" => {
                if n != 3 { return Some(Exp::Err); }
                match d.map.get(&a[1]) {
                    None => Exp::Is(R::Nil),
                    Some(Entry { val: Val::ZSet(z), .. }) => { let v = zsorted(z); match v.iter().position(|(m, _)| *m == a[2]) { None => Exp::Is(R::Nil), Some(p) => Exp::Is(R::Int(if name == "ZRANK" { p as i64 } else { (v.len() - 1 - p) as i64 })) } }
                    Some(_) => Exp::Err,
                }
            }
            "ZRANGE" | "ZREVRANGE" => {
                if n != 4 && n != 5 { return Some(Exp::Err); }
                let ws = if n == 5 { if a[4].eq_ignore_ascii_case(b"WITHSCORES") { true } else { return Some(Exp::Err); } } else { false };
                let (s, e) = match (int_arg(&a[2]), int_arg(&a[3])) { (Some(s), Some(e)) => (s, e), _ => return Some(Exp::Err) };
                match d.map.get(&a[1]) {
                    None => empty_arr(),
                    Some(Entry { val: Val::ZSet(z), .. }) => {
                        let mut v = zsorted(z);
                        if name == "ZREVRANGE" { v.reverse(); }
                        match norm_range(v.len(), s, e) { None => empty_arr(), Some((s, e)) => { let sl: Vec<(Bytes, f64)> = v[s..=e].to_vec(); if ws { Exp::MembersScores(sl) } else { Exp::Is(R::Arr(sl.iter().map(|(m, _)| bulk(m)).collect())) } } }
                    }
                    Some(_) => Exp::Err,
                }
            }
            "ZRANGEBYSCORE" | "ZREVRANGEBYSCORE" | "ZCOUNT" => {
                if n < 4 { return Some(Exp::Err); }
                let (lo_arg, hi_arg) = if name == "ZREVRANGEBYSCORE" { (&a[3], &a[2]) } else { (&a[2], &a[3]) };
                let (lo, hi) = match (parse_bound(lo_arg), parse_bound(hi_arg)) { (Some(l), Some(h)) => (l, h), _ => return Some(Exp::Err) };
                let mut ws = false;
                let mut limit: Option<(i64, i64)> = None;
                if name == "ZCOUNT" { if n != 4 { return Some(Exp::Err); } } else {
                    let mut i = 4;
                    while i < n {
                        if a[i].eq_ignore_ascii_case(b"WITHSCORES") { ws = true; i += 1; }
                        else if a[i].eq_ignore_ascii_case(b"LIMIT") && i + 2 < n { match (int_arg(&a[i + 1]), int_arg(&a[i + 2])) { (Some(o), Some(c)) => { limit = Some((o, c)); i += 3; } _ => return Some(Exp::Err) } }
                        else { return Some(Exp::Err); }
                    }
                }
                match d.map.get(&a[1]) {
                    None => if name == "ZCOUNT" { Exp::Is(R::Int(0)) } else { empty_arr() },
                    Some(Entry { val: Val::ZSet(z), .. }) => {
                        let mut v: Vec<(Bytes, f64)> = zsorted(z).into_iter().filter(|(_, s)| in_bounds(*s, lo, hi)).collect();
                        if name == "ZCOUNT" { return Some(Exp::Is(R::Int(v.len() as i64))); }
                        if name == "ZREVRANGEBYSCORE" { v.reverse(); }
                        if let Some((o, c)) = limit { if o < 0 { v.clear(); } else { v = v.into_iter().skip(o as usize).take(if c < 0 { usize::MAX } else { c as usize }).collect(); } }
                        if v.is_empty() { empty_arr() } else if ws { Exp::MembersScores(v) } else { Exp::Is(R::Arr(v.iter().map(|(m, _)| bulk(m)).collect())) }
                    }
                    Some(_) => Exp::Err,
                }
            }
            "ZINCRBY" => {
                if n != 4 { return Some(Exp::Err); }
                let by = match parse_score(&a[2]) { Some(v) => v, None => return Some(Exp::Err) };
                let cur = match d.map.get(&a[1]) { None => 0.0, Some(Entry { val: Val::ZSet(z), .. }) => z.get(&a[3]).copied().unwrap_or(0.0), Some(_) => return Some(Exp::Err) };
                let r = cur + by;
                if r.is_nan() { Exp::Err } else { Exp::Float(r) }
            }
            "ZPOPMIN" | "ZPOPMAX" => {
                if n != 2 && n != 3 { return Some(Exp::Err); }
                let c = if n == 3 { match int_arg(&a[2]) { Some(c) => c, None => return Some(Exp::Err) } } else { 1 };
                // a negative count is an error in current Redis and an empty reply in older ones; with a
                // non-positive count the reply may be produced before the key is looked at
                if c < 0 { return Some(Exp::AnyOf(vec![Exp::Err, empty_arr()])); }
                if c == 0 { return Some(match d.map.get(&a[1]) { Some(Entry { val: Val::ZSet(_), .. }) | None => empty_arr(), Some(_) => Exp::AnyOf(vec![Exp::Err, empty_arr()]) }); }
                match d.map.get(&a[1]) {
                    None => empty_arr(),
                    Some(Entry { val: Val::ZSet(z), .. }) => {
                        if c <= 0 { return Some(empty_arr()); }
                        let mut v = zsorted(z);
                        if name == "ZPOPMAX" { v.reverse(); }
                        v.truncate(c as usize);
                        Exp::MembersScores(v)
                    }
                    Some(_) => Exp::Err,
                }
            }
            _ => return super::stream::expect(self, db, name, a, now),
        })
    }

    // -----------------------------------------------------------------------------------------
    // transition (only called when the actual reply was acceptable)

    pub fn transition(&mut self, db: usize, name: &str, a: &[Bytes], now: u64, actual: &R) {
        if actual.is_err() { return; }
        let n = a.len();
        match name {
            "SET" => {
                if let (Some(o), R::Simple(_)) = (parse_set_opts(&a[3..]), actual) {
                    let deadline = o.ttl_ns.map(|t| now.saturating_add(t));
                    self.dbs[db].map.insert(a[1].clone(), Entry { val: Val::Str(a[2].clone()), deadline });
                }
            }
            "MSET" => { for p in a[1..].chunks(2) { self.dbs[db].map.insert(p[0].clone(), Entry { val: Val::Str(p[1].clone()), deadline: None }); } }
            "GETSET" => { self.dbs[db].map.insert(a[1].clone(), Entry { val: Val::Str(a[2].clone()), deadline: None }); }
            "SETNX" => { if *actual == R::Int(1) { self.dbs[db].map.insert(a[1].clone(), Entry { val: Val::Str(a[2].clone()), deadline: None }); } }
            "SETEX" | "PSETEX" => {
                let t = strict_i64(&a[2]).unwrap() as u64;
                let ns = if name == "SETEX" { t.saturating_mul(1_000_000_000) } else { t.saturating_mul(1_000_000) };
                self.dbs[db].map.insert(a[1].clone(), Entry { val: Val::Str(a[3].clone()), deadline: Some(now.saturating_add(ns)) });
            }
            "APPEND" => {
                let e = self.dbs[db].map.entry(a[1].clone()).or_insert(Entry { val: Val::Str(vec![]), deadline: None });
                if let Val::Str(s) = &mut e.val { s.extend_from_slice(&a[2]); }
            }
            "SETRANGE" => {
                if a[3].is_empty() { return; }
                let off = strict_i64(&a[2]).unwrap() as usize;
                let e = self.dbs[db].map.entry(a[1].clone()).or_insert(Entry { val: Val::Str(vec![]), deadline: None });
                if let Val::Str(s) = &mut e.val { if s.len() < off + a[3].len() { s.resize(off + a[3].len(), 0); } s[off..off + a[3].len()].copy_from_slice(&a[3]); }
            }
            "INCR" | "DECR" | "INCRBY" | "DECRBY" => {
                if let R::Int(v) = actual {
                    let e = self.dbs[db].map.entry(a[1].clone()).or_insert(Entry { val: Val::Str(vec![]), deadline: None });
                    e.val = Val::Str(v.to_string().into_bytes());
                }
            }
            "DEL" => { for k in &a[1..] { self.dbs[db].map.remove(k); } }
            "RENAME" | "RENAMENX" => {
                if name == "RENAMENX" && *actual != R::Int(1) { return; }
                if a[1] == a[2] { return; }
                if let Some(e) = self.dbs[db].map.remove(&a[1]) { self.dbs[db].map.insert(a[2].clone(), e); }
            }
            "FLUSHDB" => { self.dbs[db].map.clear(); }
            "FLUSHALL" => { for d in self.dbs.iter_mut() { d.map.clear(); } }
            "EXPIRE" | "PEXPIRE" => {
                if *actual == R::Int(1) {
                    let t = strict_i64(&a[2]).unwrap();
                    // a zero/negative TTL puts the deadline at this very instant: the key is gone as soon as the
                    // clock moves; whether it is still visible at the same clock reading is a don't-care
                    if t <= 0 { if let Some(e) = self.dbs[db].map.get_mut(&a[1]) { e.deadline = Some(now); } } else {
                        let ns = if name == "EXPIRE" { (t as u64).saturating_mul(1_000_000_000) } else { (t as u64).saturating_mul(1_000_000) };
                        if let Some(e) = self.dbs[db].map.get_mut(&a[1]) { e.deadline = Some(now.saturating_add(ns)); }
                    }
                }
            }
            "PERSIST" => { if let Some(e) = self.dbs[db].map.get_mut(&a[1]) { e.deadline = None; } }
            "LPUSH" | "RPUSH" => {
                let e = self.dbs[db].map.entry(a[1].clone()).or_insert(Entry { val: Val::List(VecDeque::new()), deadline: None });
                if let Val::List(l) = &mut e.val { for v in &a[2..] { if name == "LPUSH" { l.push_front(v.clone()); } else { l.push_back(v.clone()); } } }
            }
            "LPOP" | "RPOP" => {
                if let Some(Entry { val: Val::List(l), .. }) = self.dbs[db].map.get_mut(&a[1]) { if name == "LPOP" { l.pop_front(); } else { l.pop_back(); } }
                self.drop_if_empty(db, &a[1]);
            }
            "BLPOP" | "BRPOP" => {
                if let R::Arr(v) = actual { if let (Some(R::Bulk(k)), true) = (v.first(), v.len() == 2) {
                    if let Some(Entry { val: Val::List(l), .. }) = self.dbs[db].map.get_mut(k) { if name == "BLPOP" { l.pop_front(); } else { l.pop_back(); } }
                    let k = k.clone();
                    self.drop_if_empty(db, &k);
                } }
            }
            "LSET" => {
                let i = strict_i64(&a[2]).unwrap();
                if let Some(Entry { val: Val::List(l), .. }) = self.dbs[db].map.get_mut(&a[1]) { let idx = if i < 0 { l.len() as i64 + i } else { i }; if idx >= 0 && (idx as usize) < l.len() { l[idx as usize] = a[3].clone(); } }
            }
            "LTRIM" => {
                let (s, e) = (strict_i64(&a[2]).unwrap(), strict_i64(&a[3]).unwrap());
                if let Some(Entry { val: Val::List(l), .. }) = self.dbs[db].map.get_mut(&a[1]) {
                    match norm_range(l.len(), s, e) { None => l.clear(), Some((s, e)) => { let kept: VecDeque<Bytes> = l.iter().skip(s).take(e - s + 1).cloned().collect(); *l = kept; } }
                }
                self.drop_if_empty(db, &a[1]);
            }
            "LREM" => {
                let c = strict_i64(&a[2]).unwrap();
                if let Some(Entry { val: Val::List(l), .. }) = self.dbs[db].map.get_mut(&a[1]) {
                    let mut v: Vec<Bytes> = l.iter().cloned().collect();
                    let mut left = if c == 0 { usize::MAX } else { c.unsigned_abs() as usize };
                    if c < 0 { v.reverse(); }
                    let mut out = Vec::new();
                    for x in v { if x == a[3] && left > 0 { left -= 1; } else { out.push(x); } }
                    if c < 0 { out.reverse(); }
                    *l = out.into_iter().collect();
                }
                self.drop_if_empty(db, &a[1]);
            }
            "SADD" => {
                let e = self.dbs[db].map.entry(a[1].clone()).or_insert(Entry { val: Val::Set(BTreeSet::new()), deadline: None });
                if let Val::Set(s) = &mut e.val { for m in &a[2..] { s.insert(m.clone()); } }
            }
            "SREM" => { if let Some(Entry { val: Val::Set(s), .. }) = self.dbs[db].map.get_mut(&a[1]) { for m in &a[2..] { s.remove(m); } } self.drop_if_empty(db, &a[1]); }
            "SPOP" => {
                let picked: Vec<Bytes> = match actual { R::Bulk(b) => vec![b.clone()], R::Arr(v) => v.iter().filter_map(|r| if let R::Bulk(b) = r { Some(b.clone()) } else { None }).collect(), _ => vec![] };
                if let Some(Entry { val: Val::Set(s), .. }) = self.dbs[db].map.get_mut(&a[1]) { for m in picked { s.remove(&m); } }
                self.drop_if_empty(db, &a[1]);
            }
            "HSET" | "HMSET" => {
                let e = self.dbs[db].map.entry(a[1].clone()).or_insert(Entry { val: Val::Hash(BTreeMap::new()), deadline: None });
                if let Val::Hash(h) = &mut e.val { for p in a[2..].chunks(2) { h.insert(p[0].clone(), p[1].clone()); } }
            }
            "HDEL" => { if let Some(Entry { val: Val::Hash(h), .. }) = self.dbs[db].map.get_mut(&a[1]) { for f in &a[2..] { h.remove(f); } } self.drop_if_empty(db, &a[1]); }
            "HINCRBY" => {
                if let R::Int(v) = actual {
                    let e = self.dbs[db].map.entry(a[1].clone()).or_insert(Entry { val: Val::Hash(BTreeMap::new()), deadline: None });
                    if let Val::Hash(h) = &mut e.val { h.insert(a[2].clone(), v.to_string().into_bytes()); }
                }
            }
            "ZADD" => {
                let e = self.dbs[db].map.entry(a[1].clone()).or_insert(Entry { val: Val::ZSet(BTreeMap::new()), deadline: None });
                if let Val::ZSet(z) = &mut e.val { for p in a[2..].chunks(2) { z.insert(p[1].clone(), parse_score(&p[0]).unwrap()); } }
            }
            "ZREM" => { if let Some(Entry { val: Val::ZSet(z), .. }) = self.dbs[db].map.get_mut(&a[1]) { for m in &a[2..] { z.remove(m); } } self.drop_if_empty(db, &a[1]); }
            "ZINCRBY" => {
                let by = parse_score(&a[2]).unwrap();
                let e = self.dbs[db].map.entry(a[1].clone()).or_insert(Entry { val: Val::ZSet(BTreeMap::new()), deadline: None });
                if let Val::ZSet(z) = &mut e.val { let cur = z.get(&a[3]).copied().unwrap_or(0.0); z.insert(a[3].clone(), cur + by); }
            }
            "ZPOPMIN" | "ZPOPMAX" => {
                let c = if n == 3 { strict_i64(&a[2]).unwrap_or(1) } else { 1 };
                if c > 0 {
                    if let Some(Entry { val: Val::ZSet(z), .. }) = self.dbs[db].map.get_mut(&a[1]) {
                        let mut v = zsorted(z);
                        if name == "ZPOPMAX" { v.reverse(); }
                        for (m, _) in v.into_iter().take(c as usize) { z.remove(&m); }
                    }
                    self.drop_if_empty(db, &a[1]);
                }
            }
            _ => { super::stream::transition(self, db, name, a, now, actual); }
        }
    }

    /// Canonical content hash (for the distinct-states measure).
    pub fn state_hash(&self) -> u64 {
        let mut h: u64 = 0xcbf29ce484222325;
        for (i, d) in self.dbs.iter().enumerate() {
            for (k, e) in d.map.iter() {
                crate::harness::fnv(&mut h, &[i as u8]);
                crate::harness::fnv(&mut h, k);
                crate::harness::fnv(&mut h, format!("{:?}", e.val).as_bytes());
                crate::harness::fnv(&mut h, &[e.deadline.is_some() as u8]);
            }
        }
        h
    }
}

pub const HUGE_TTL_NS: u64 = 4_000_000_000_000_000_000;
pub struct SetOpts { pub nx: bool, pub xx: bool, pub ttl_ns: Option<u64> }
/// SET options per Redis: NX|XX (mutually exclusive), EX s | PX ms (mutually exclusive, positive integers).
pub fn parse_set_opts(opts: &[Bytes]) -> Option<SetOpts> {
    let mut o = SetOpts { nx: false, xx: false, ttl_ns: None };
    let mut i = 0;
    let mut ttl_seen = false;
    while i < opts.len() {
        let u = opts[i].to_ascii_uppercase();
        match u.as_slice() {
            b"NX" => { o.nx = true; i += 1; }
            b"XX" => { o.xx = true; i += 1; }
            b"EX" | b"PX" => {
                if ttl_seen || i + 1 >= opts.len() { return None; }
                ttl_seen = true;
                let v = strict_i64(&opts[i + 1])?;
                if v <= 0 { return None; }
                o.ttl_ns = Some(if u == b"EX" { (v as u64).saturating_mul(1_000_000_000) } else { (v as u64).saturating_mul(1_000_000) });
                i += 2;
            }
            _ => return None,
        }
    }
    if o.nx && o.xx { return None; }
    Some(o)
}

pub fn getrange(v: &[u8], start: i64, end: i64) -> Vec<u8> {
    let len = v.len() as i64;
    let (mut s, mut e) = (start, end);
    if s < 0 && e < 0 && s > e { return vec![]; }
    if s < 0 { s = len.saturating_add(s); }
    if e < 0 { e = len.saturating_add(e); }
    if s < 0 { s = 0; }
    if e < 0 { e = 0; }
    if e >= len { e = len - 1; }
    if len == 0 || s > e { return vec![]; }
    v[s as usize..=e as usize].to_vec()
}
