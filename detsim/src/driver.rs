//! Driver: seeded search over many simulated runs (one forked process per run), known-findings
//! triage, trace minimisation, replay files, evidence files.
#![allow(dead_code)]

use crate::checks::{self, CheckDef, Tier};
use crate::harness::Outcome;
use crate::raw;
use crate::scenario::*;
use std::collections::{BTreeMap, BTreeSet, HashSet};
use std::io::{BufRead, BufReader, Write};
use std::process::{Child, ChildStdin, Command, Stdio};
use std::sync::mpsc::{channel, Receiver, Sender};
use std::time::{Duration, Instant};

pub const VERIF_DIR: &str = "/verif";

// ---------------------------------------------------------------------------------------------
// zygote worker: forks one child per simulated run

pub fn zygote_main(check_id: &str) -> ! {
    let def = match checks::find(check_id) { Some(d) => d, None => { eprintln!("unknown check {}", check_id); raw::exit_group(2) } };
    let stdin = std::io::stdin();
    let mut line = String::new();
    loop {
        line.clear();
        match stdin.lock().read_line(&mut line) { Ok(0) | Err(_) => raw::exit_group(0), Ok(_) => {} }
        let parts: Vec<&str> = line.trim().splitn(2, ' ').collect();
        if parts.is_empty() || parts[0] == "quit" { raw::exit_group(0); }
        let job = parts[0].to_string();
        let arg = parts.get(1).map(|s| s.to_string()).unwrap_or_default();
        let out = run_forked(def, &job, &arg);
        let mut so = std::io::stdout().lock();
        let _ = so.write_all(out.as_bytes());
        let _ = so.write_all(b"\n");
        let _ = so.flush();
    }
}

fn build_scenario(def: &CheckDef, job: &str, arg: &str) -> Result<Scenario, String> {
    match job {
        "gen" => {
            // arg: "<idx> <base_seed> <tier>"
            let p: Vec<&str> = arg.split(' ').collect();
            let idx: u64 = p.first().and_then(|x| x.parse().ok()).ok_or("bad idx")?;
            let base: u64 = p.get(1).and_then(|x| x.parse().ok()).ok_or("bad seed")?;
            let tier = if p.get(2) == Some(&"thorough") { Tier::Thorough } else { Tier::Quick };
            Ok((def.gen)(derive_seed(base, def.id, idx), idx, tier))
        }
        "file" => {
            let s = std::fs::read_to_string(arg).map_err(|e| format!("read {}: {}", arg, e))?;
            serde_json::from_str(&s).map_err(|e| format!("parse {}: {}", arg, e))
        }
        _ => Err(format!("bad job {}", job)),
    }
}

/// Fork; the child executes the run and writes the outcome JSON into a pipe.
fn run_forked(def: &'static CheckDef, job: &str, arg: &str) -> String {
    let mut fds = [0i32; 2];
    unsafe { libc::pipe(fds.as_mut_ptr()); }
    let pid = unsafe { libc::fork() };
    if pid == 0 {
        unsafe { libc::close(fds[0]); }
        crate::alloc_seam::RESULT_FD.store(fds[1], std::sync::atomic::Ordering::SeqCst);
        crate::alloc_seam::set_check(def.id);
        let out = match build_scenario(def, job, arg) {
            Ok(sc) => { let seed = sc.seed; let mut o = (def.exec)(&sc); o.seed = seed; o }
            Err(e) => Outcome { verdict: "harness".into(), note: e, ..Default::default() },
        };
        let s = serde_json::to_string(&out).unwrap_or_else(|e| format!("{{\"verdict\":\"harness\",\"note\":\"serialize: {}\"}}", e));
        raw::write_all(fds[1], s.as_bytes());
        raw::exit_group(0);
    }
    unsafe { libc::close(fds[1]); }
    let mut buf = Vec::new();
    let start = raw::real_mono_ns();
    let limit_ns: u64 = std::env::var("DETSIM_RUN_TIMEOUT_S").ok().and_then(|x| x.parse::<u64>().ok()).unwrap_or(120) * 1_000_000_000;
    let mut timed_out = false;
    loop {
        let mut pfd = libc::pollfd { fd: fds[0], events: libc::POLLIN, revents: 0 };
        let r = unsafe { libc::poll(&mut pfd, 1, 200) };
        if r > 0 {
            let mut tmp = [0u8; 65536];
            let n = unsafe { raw::sc3(raw::SYS_READ, fds[0] as i64, tmp.as_mut_ptr() as i64, tmp.len() as i64) };
            if n > 0 { buf.extend_from_slice(&tmp[..n as usize]); } else if n == 0 { break; }
        }
        if raw::real_mono_ns() - start > limit_ns { timed_out = true; unsafe { libc::kill(pid, libc::SIGKILL); } break; }
    }
    unsafe { libc::close(fds[0]); }
    let mut status = 0i32;
    unsafe { libc::waitpid(pid, &mut status, 0); }
    // the child may have left its scratch directory behind if it died
    let _ = std::fs::remove_dir_all(format!("/dev/shm/ferrous-verif/{}", pid));
    if !buf.is_empty() && libc::WIFEXITED(status) && libc::WEXITSTATUS(status) == 0 {
        return String::from_utf8_lossy(&buf).replace('\n', " ");
    }
    let sig = if libc::WIFSIGNALED(status) { libc::WTERMSIG(status) } else { 0 };
    let code = if libc::WIFEXITED(status) { libc::WEXITSTATUS(status) } else { -1 };
    let o = Outcome { verdict: "died".into(), note: format!("signal={} exit={} timeout={}", sig, code, timed_out), ..Default::default() };
    serde_json::to_string(&o).unwrap()
}

// ---------------------------------------------------------------------------------------------
// worker pool (driver side)

struct Worker { child: Child, stdin: ChildStdin, busy: Option<u64> }

pub struct Pool { workers: Vec<Worker>, rx: Receiver<(usize, String)>, _tx: Sender<(usize, String)> }

impl Pool {
    pub fn new(check_id: &str, n: usize) -> Pool {
        let exe = std::env::current_exe().expect("current_exe");
        let (tx, rx) = channel();
        let mut workers = Vec::new();
        for wi in 0..n {
            let mut child = Command::new(&exe).arg("zygote").arg(check_id).stdin(Stdio::piped()).stdout(Stdio::piped()).stderr(Stdio::inherit()).spawn().expect("spawn worker");
            let stdin = child.stdin.take().unwrap();
            let stdout = child.stdout.take().unwrap();
            let txc = tx.clone();
            std::thread::spawn(move || {
                let mut r = BufReader::new(stdout);
                let mut line = String::new();
                loop {
                    line.clear();
                    match r.read_line(&mut line) { Ok(0) | Err(_) => break, Ok(_) => { if txc.send((wi, line.trim().to_string())).is_err() { break; } } }
                }
            });
            workers.push(Worker { child, stdin, busy: None });
        }
        Pool { workers, rx, _tx: tx }
    }
    pub fn idle(&self) -> Option<usize> { self.workers.iter().position(|w| w.busy.is_none()) }
    pub fn n_busy(&self) -> usize { self.workers.iter().filter(|w| w.busy.is_some()).count() }
    pub fn submit(&mut self, wi: usize, tag: u64, job: &str) {
        self.workers[wi].busy = Some(tag);
        let _ = writeln!(self.workers[wi].stdin, "{}", job);
        let _ = self.workers[wi].stdin.flush();
    }
    /// Wait for one result: (tag, outcome)
    pub fn recv(&mut self, timeout: Duration) -> Option<(u64, Outcome)> {
        match self.rx.recv_timeout(timeout) {
            Ok((wi, line)) => {
                let tag = self.workers[wi].busy.take().unwrap_or(u64::MAX);
                let o: Outcome = serde_json::from_str(&line).unwrap_or_else(|e| Outcome { verdict: "harness".into(), note: format!("bad worker output: {} :: {}", e, &line[..line.len().min(200)]), ..Default::default() });
                Some((tag, o))
            }
            Err(_) => None,
        }
    }
    /// Run a batch of jobs to completion, results in job order.
    pub fn run_all(&mut self, jobs: &[String]) -> Vec<Outcome> {
        let mut results: Vec<Option<Outcome>> = (0..jobs.len()).map(|_| None).collect();
        let mut next = 0;
        let mut done = 0;
        while done < jobs.len() {
            while next < jobs.len() { if let Some(wi) = self.idle() { self.submit(wi, next as u64, &jobs[next]); next += 1; } else { break; } }
            if let Some((tag, o)) = self.recv(Duration::from_secs(300)) { if (tag as usize) < results.len() { results[tag as usize] = Some(o); done += 1; } } else { break; }
        }
        results.into_iter().map(|r| r.unwrap_or_else(|| Outcome { verdict: "harness".into(), note: "no result".into(), ..Default::default() })).collect()
    }
    pub fn shutdown(mut self) {
        for w in self.workers.iter_mut() { let _ = writeln!(w.stdin, "quit"); let _ = w.stdin.flush(); }
        for w in self.workers.iter_mut() { let _ = w.child.wait(); }
    }
}

// ---------------------------------------------------------------------------------------------
// known findings

pub struct Known { pub entries: Vec<(String, String, String)> /* (property, class pattern, description) */ }

impl Known {
    pub fn load() -> Known {
        let mut entries = Vec::new();
        if let Ok(s) = std::fs::read_to_string(format!("{}/known_findings.txt", VERIF_DIR)) {
            for l in s.lines() {
                let l = l.trim();
                if !l.starts_with("known:") { continue; }
                let rest = l[6..].trim();
                let (head, desc) = match rest.find(" :: ") { Some(p) => (&rest[..p], &rest[p + 4..]), None => (rest, "") };
                let mut prop = String::new();
                let mut class = String::new();
                for tok in head.split_whitespace() {
                    if let Some(v) = tok.strip_prefix("property=") { prop = v.to_string(); }
                    if let Some(v) = tok.strip_prefix("class=") { class = v.to_string(); }
                }
                if !prop.is_empty() && !class.is_empty() { entries.push((prop, class, desc.to_string())); }
            }
        }
        Known { entries }
    }
    pub fn lookup(&self, prop: &str, class: &str) -> Option<&(String, String, String)> {
        self.entries.iter().find(|(p, pat, _)| p == prop && class_matches(pat, class))
    }
}
/// Exact match, or component-wise match where a pattern component `*` matches one class component.
pub fn class_matches(pat: &str, class: &str) -> bool {
    if pat == class { return true; }
    let a: Vec<&str> = pat.split('/').collect();
    let b: Vec<&str> = class.split('/').collect();
    if a.len() != b.len() { return false; }
    a.iter().zip(b.iter()).all(|(x, y)| *x == "*" || x == y)
}

// ---------------------------------------------------------------------------------------------
// minimisation

fn write_tmp(sc: &Scenario, name: &str) -> String {
    let dir = format!("/dev/shm/ferrous-verif/min-{}", raw::real_pid());
    let _ = std::fs::create_dir_all(&dir);
    let p = format!("{}/{}.json", dir, name);
    std::fs::write(&p, serde_json::to_string(sc).unwrap()).expect("write tmp scenario");
    p
}

fn has_class(o: &Outcome, class: &str) -> bool {
    if o.verdict == "died" { return class.ends_with("/worker-died") || class.contains("/worker-died/"); }
    o.violations.iter().any(|v| v.class == class)
}

/// ddmin over the step list, candidates evaluated in parallel; keeps a candidate only if a fresh
/// process reports the same violation class.
pub fn minimise(pool: &mut Pool, sc: &Scenario, class: &str, budget: Duration, max_execs: usize) -> (Scenario, usize) {
    let start = Instant::now();
    let mut cur = sc.clone();
    let mut execs = 0usize;
    let mut chunk = (cur.steps.len() / 2).max(1);
    let mut uniq = 0u64;
    loop {
        if start.elapsed() > budget || execs >= max_execs { break; }
        let n = cur.steps.len();
        if n <= 1 { break; }
        let mut cands: Vec<Scenario> = Vec::new();
        let mut i = 0;
        while i < n {
            let mut s = cur.clone();
            let end = (i + chunk).min(n);
            s.steps.drain(i..end);
            cands.push(s);
            i += chunk;
        }
        cands.truncate(64);
        let jobs: Vec<String> = cands.iter().map(|s| { uniq += 1; format!("file {}", write_tmp(s, &format!("m{}", uniq))) }).collect();
        let outs = pool.run_all(&jobs);
        execs += outs.len();
        match outs.iter().position(|o| has_class(o, class)) {
            Some(k) => { cur = cands[k].clone(); chunk = chunk.min((cur.steps.len() / 2).max(1)); }
            None => { if chunk == 1 { break; } chunk = (chunk / 2).max(1); }
        }
    }
    // second phase: simplify arguments (shorten long byte strings, drop split lists)
    if start.elapsed() < budget && execs < max_execs {
        let mut s = cur.clone();
        let mut changed = false;
        for st in s.steps.iter_mut() {
            match st {
                Step::Cmd { split, .. } | Step::Send { split, .. } | Step::Raw { split, .. } => { if !split.is_empty() { split.clear(); changed = true; } }
                _ => {}
            }
        }
        if changed {
            uniq += 1;
            let outs = pool.run_all(&[format!("file {}", write_tmp(&s, &format!("m{}", uniq)))]);
            execs += 1;
            if has_class(&outs[0], class) { cur = s; }
        }
    }
    let _ = std::fs::remove_dir_all(format!("/dev/shm/ferrous-verif/min-{}", raw::real_pid()));
    (cur, execs)
}

fn sanitize(s: &str) -> String { s.chars().map(|c| if c.is_ascii_alphanumeric() || c == '-' || c == '.' { c } else { '_' }).collect::<String>().chars().take(120).collect() }

// ---------------------------------------------------------------------------------------------
// the check command

pub fn run_check(check_id: &str, tier: Tier) -> i32 {
    let def = match checks::find(check_id) { Some(d) => d, None => { eprintln!("unknown check {}", check_id); return 2; } };
    let base_seed: u64 = std::env::var("VERIF_SEED").ok().and_then(|x| x.parse().ok()).unwrap_or(1);
    let budget_s: f64 = std::env::var("VERIF_BUDGET_S").ok().and_then(|x| x.parse().ok()).unwrap_or(match tier { Tier::Quick => def.quick_budget_s, Tier::Thorough => def.thorough_budget_s });
    let jobs_n: usize = std::env::var("VERIF_JOBS").ok().and_then(|x| x.parse().ok()).unwrap_or(16);
    let max_runs: u64 = std::env::var("VERIF_MAX_RUNS").ok().and_then(|x| x.parse().ok()).unwrap_or(match tier { Tier::Quick => def.quick_max_runs, Tier::Thorough => def.thorough_max_runs });
    let tier_s = match tier { Tier::Quick => "quick", Tier::Thorough => "thorough" };
    let t0 = Instant::now();
    let known = Known::load();
    let mut pool = Pool::new(check_id, jobs_n);

    let mut next_idx: u64 = 0;
    let mut evaluations: u64 = 0;
    let mut counters: BTreeMap<String, u64> = BTreeMap::new();
    let mut hashes: HashSet<u64> = HashSet::new();
    let mut sched_hashes: HashSet<u64> = HashSet::new();
    let mut state_hashes: HashSet<u64> = HashSet::new();
    let mut nontrivial_hashes: HashSet<u64> = HashSet::new();
    let mut sim_ns_total: u128 = 0;
    let mut class_first: BTreeMap<String, (u64, String)> = BTreeMap::new(); // class -> (idx, detail)
    let mut class_count: BTreeMap<String, u64> = BTreeMap::new();
    let mut harness_errors: Vec<String> = Vec::new();
    let mut det_pending: BTreeMap<u64, u64> = BTreeMap::new(); // idx -> first hash
    let det_samples: u64 = match tier { Tier::Quick => 8, Tier::Thorough => 64 };
    let mut det_checked = 0u64;
    let mut unknown_classes = 0usize;
    let triage = std::env::var("VERIF_TRIAGE").is_ok();
    let mut hash_out = std::env::var("DETSIM_HASH_OUT").ok().and_then(|p| std::fs::File::create(p).ok());

    // determinism probe: the first det_samples indices are executed twice (tags idx and idx|DET)
    const DET: u64 = 1 << 62;
    let mut det_queue: Vec<u64> = Vec::new();
    loop {
        let elapsed = t0.elapsed().as_secs_f64();
        let stop_new = elapsed > budget_s || next_idx >= max_runs || (unknown_classes >= 6 && !triage) || !harness_errors.is_empty();
        while !stop_new || !det_queue.is_empty() {
            let wi = match pool.idle() { Some(w) => w, None => break };
            if let Some(idx) = det_queue.pop() {
                pool.submit(wi, idx | DET, &format!("gen {} {} {}", idx, base_seed, tier_s));
                continue;
            }
            if stop_new { break; }
            let idx = next_idx; next_idx += 1;
            pool.submit(wi, idx, &format!("gen {} {} {}", idx, base_seed, tier_s));
        }
        if pool.n_busy() == 0 { break; }
        let (tag, o) = match pool.recv(Duration::from_secs(400)) { Some(x) => x, None => { harness_errors.push("worker pool stalled".into()); break; } };
        let idx = tag & !DET;
        if tag & DET != 0 {
            det_checked += 1;
            if let Some(h) = det_pending.remove(&idx) {
                if h != o.hash && o.verdict != "died" { harness_errors.push(format!("determinism: run {} produced event-log hashes {:016x} and {:016x}", idx, h, o.hash)); }
            }
            continue;
        }
        evaluations += 1;
        if idx < det_samples && o.verdict != "died" { det_pending.insert(idx, o.hash); det_queue.push(idx); }
        match o.verdict.as_str() {
            "harness" => { harness_errors.push(format!("run {}: {}", idx, o.note)); }
            "died" => {
                let class = format!("{}/worker-died", def.id);
                *class_count.entry(class.clone()).or_insert(0) += 1;
                if !class_first.contains_key(&class) { if known.lookup(def.id, &class).is_none() { unknown_classes += 1; } class_first.insert(class, (idx, o.note.clone())); }
            }
            _ => {
                for v in &o.violations {
                    *class_count.entry(v.class.clone()).or_insert(0) += 1;
                    if !class_first.contains_key(&v.class) {
                        if known.lookup(def.id, &v.class).is_none() { unknown_classes += 1; }
                        class_first.insert(v.class.clone(), (idx, v.detail.clone()));
                    }
                }
            }
        }
        for (k, v) in &o.counters { *counters.entry(k.clone()).or_insert(0) += *v; }
        if let Some(f) = hash_out.as_mut() { let _ = writeln!(f, "{} {:016x} {}", idx, o.hash, o.verdict); }
        hashes.insert(o.hash);
        sched_hashes.insert(o.sched_hash);
        for h in &o.state_hashes { state_hashes.insert(*h); }
        sim_ns_total += o.sim_ns as u128;
        if (def.nontrivial)(&o) { nontrivial_hashes.insert(o.hash); }
    }
    let search_wall = t0.elapsed().as_secs_f64();

    // triage
    let mut exit = 0;
    let mut known_hit: Vec<String> = Vec::new();
    let mut violations_reported = 0;
    let mut lines: Vec<String> = Vec::new();
    let classes: Vec<(String, (u64, String))> = class_first.iter().map(|(k, v)| (k.clone(), v.clone())).collect();
    for (class, (idx, detail)) in classes {
        if let Some((_, _, desc)) = known.lookup(def.id, &class) {
            lines.push(format!("KNOWN-FINDING: property={} class={} {}", def.id, class, desc));
            known_hit.push(class.clone());
            continue;
        }
        if triage { lines.push(format!("TRIAGE {} {} :: {}", class_count.get(&class).copied().unwrap_or(0), class, detail.replace('\n', " "))); continue; }
        // unknown class: minimise, write replay, confirm
        let seed = derive_seed(base_seed, def.id, idx);
        let sc = (def.gen)(seed, idx, tier);
        let n0 = sc.steps.len();
        let (mut min, execs) = if violations_reported < 4 { minimise(&mut pool, &sc, &class, Duration::from_secs(60), 400) } else { (sc.clone(), 0) };
        min.expect_class = Some(class.clone());
        min.note = Some(format!("property {} violation class {}; found at run index {} (VERIF_SEED={}, tier {}); {} -> {} steps after {} minimisation runs; first detail: {}", def.id, class, idx, base_seed, tier_s, n0, min.steps.len(), execs, detail));
        let dir = format!("{}/replays/{}", VERIF_DIR, def.id);
        let _ = std::fs::create_dir_all(&dir);
        let path = format!("{}/{}-{}.json", dir, sanitize(&class), seed);
        std::fs::write(&path, serde_json::to_string_pretty(&min).unwrap()).expect("write replay");
        // confirm from the file in a fresh process
        let outs = pool.run_all(&[format!("file {}", path)]);
        if has_class(&outs[0], &class) {
            lines.push(format!("VIOLATION property={} replay={}", def.id, path));
            lines.push(format!("  class={} detail={}", class, outs[0].violations.iter().find(|v| v.class == class).map(|v| v.detail.clone()).unwrap_or(detail.clone())));
            violations_reported += 1;
            exit = 1;
        } else {
            harness_errors.push(format!("class {} from run {} did not reproduce from its replay file {}", class, idx, path));
        }
    }
    pool.shutdown();
    for l in &lines { println!("{}", l); }

    // evidence
    let wall = t0.elapsed().as_secs_f64();
    let mut samples: Vec<serde_json::Value> = Vec::new();
    for i in 0..3u64.min(next_idx.max(1)) {
        let sc = (def.gen)(derive_seed(base_seed, def.id, i), i, tier);
        let steps: Vec<String> = sc.steps.iter().take(14).map(render_step).collect();
        samples.push(serde_json::json!({ "run_index": i, "seed": sc.seed, "cfg": sc.cfg, "knobs": sc.knobs, "n_steps": sc.steps.len(), "first_steps": steps }));
    }
    let faults: BTreeMap<String, u64> = counters.iter().filter(|(k, _)| k.starts_with("fault_")).map(|(k, v)| (k.clone(), *v)).collect();
    let probes: BTreeMap<String, u64> = counters.iter().filter(|(k, _)| !k.starts_with("fault_")).map(|(k, v)| (k.clone(), *v)).collect();
    let ev = serde_json::json!({
        "property_id": def.id,
        "tier": tier_s,
        "seed": base_seed,
        "level": def.level,
        "coverage": {
            "evaluations": evaluations,
            "distinct_nontrivial": nontrivial_hashes.len(),
            "rule": def.rule,
            "samples": samples,
            "exhaustive": (def.exhaustive && next_idx >= max_runs) || { let need = (def.exhaustive_after)(tier); need > 0 && next_idx >= need },
            "runs_per_hour": if search_wall > 0.0 { (evaluations as f64 / search_wall * 3600.0) as u64 } else { 0 },
            "seeds": { "base": base_seed, "derivation": "splitmix64(VERIF_SEED ^ fnv(check id) ^ run index)", "run_indices": format!("0..{}", next_idx) },
            "simulated_seconds": (sim_ns_total / 1_000_000) as f64 / 1000.0,
            "faults_injected": faults,
            "distinct_event_logs": hashes.len(),
            "distinct_schedules": sched_hashes.len(),
            "distinct_states": state_hashes.len(),
            "probes": probes,
            "determinism_reruns": det_checked,
            "components_real": def.real,
            "components_stub": def.stub,
            "known_findings_hit": known_hit,
            "violation_classes_seen": class_count,
        },
        "assumptions": def.assumptions,
        "wall_s": wall,
        "violations": violations_reported,
    });
    let _ = std::fs::create_dir_all(format!("{}/evidence", VERIF_DIR));
    let evp = format!("{}/evidence/{}.json", VERIF_DIR, def.id);
    std::fs::write(&evp, serde_json::to_string_pretty(&ev).unwrap()).expect("write evidence");
    println!("{} {}: {} runs in {:.1}s ({} distinct event logs, {} non-trivial), {:.1} simulated s, {} known-finding classes, {} violations", def.id, tier_s, evaluations, wall, hashes.len(), nontrivial_hashes.len(), (sim_ns_total / 1_000_000) as f64 / 1000.0, ev["coverage"]["known_findings_hit"].as_array().map(|a| a.len()).unwrap_or(0), violations_reported);
    if !harness_errors.is_empty() {
        for e in harness_errors.iter().take(10) { eprintln!("HARNESS-ERROR: {}", e); }
        return 2;
    }
    exit
}

pub fn render_step(s: &Step) -> String {
    match s {
        Step::Connect { c, inst, buf } => format!("connect c{} inst{} buf{}", c, inst, buf),
        Step::Cmd { c, a, split } => format!("c{}: {}{}", c, a.iter().map(|x| esc(&x.0[..x.0.len().min(40)])).collect::<Vec<_>>().join(" "), if split.is_empty() { String::new() } else { format!(" split{:?}", split) }),
        Step::Send { c, a, .. } => format!("c{} send: {}", c, a.iter().map(|x| esc(&x.0[..x.0.len().min(40)])).collect::<Vec<_>>().join(" ")),
        Step::Raw { c, data, .. } => format!("c{} raw: {}", c, esc(&data.0[..data.0.len().min(60)])),
        Step::Turns { n } => format!("turns {}", n),
        Step::Adv { ns } => format!("advance {}ns", ns),
        Step::RealStep { ns } => format!("realstep {}ns", ns),
        Step::Close { c, half } => format!("close c{} half={}", c, half),
        Step::Arm { fop, conn, class, nth, action, .. } => format!("arm {:?} conn{:?} {:?} nth{} {:?}", fop, conn, class, nth, action),
        Step::Ctl { name, n, a } => format!("ctl {} {} {}", name, n, a.iter().map(|x| esc(&x.0)).collect::<Vec<_>>().join(" ")),
    }
}

/// Replay a scenario file in a fresh process; prints the transcript.
pub fn run_replay(path: &str) -> i32 {
    let s = match std::fs::read_to_string(path) { Ok(s) => s, Err(e) => { eprintln!("cannot read {}: {}", path, e); return 2; } };
    let sc: Scenario = match serde_json::from_str(&s) { Ok(s) => s, Err(e) => { eprintln!("cannot parse {}: {}", path, e); return 2; } };
    std::env::set_var("DETSIM_TRANSCRIPT", "1");
    let mut pool = Pool::new(&sc.check, 1);
    let outs = pool.run_all(&[format!("file {}", path)]);
    pool.shutdown();
    let o = &outs[0];
    for l in &o.transcript { println!("{}", l); }
    println!("verdict={} hash={:016x} {}", o.verdict, o.hash, o.note);
    for v in &o.violations { println!("  violation class={} step={} :: {}", v.class, v.step, v.detail); }
    let known = Known::load();
    let mut code = 0;
    let mut seen: BTreeSet<String> = BTreeSet::new();
    for v in &o.violations {
        if !seen.insert(v.class.clone()) { continue; }
        if let Some(exp) = &sc.expect_class { if &v.class != exp { continue; } }
        if known.lookup(&sc.check, &v.class).is_some() { println!("KNOWN-FINDING: property={} class={}", sc.check, v.class); continue; }
        println!("VIOLATION property={} replay={}", sc.check, path);
        code = 1;
    }
    if o.verdict == "died" {
        let class = format!("{}/worker-died", sc.check);
        if known.lookup(&sc.check, &class).is_none() { println!("VIOLATION property={} replay={}", sc.check, path); code = 1; }
    }
    if o.verdict == "harness" { return 2; }
    code
}
