//! C17 — with a password set, unauthenticated connections can neither read nor write.
use super::*;
use crate::harness::*;
use crate::resp::{self, R};
use crate::scenario::*;
use crate::sim::*;

const PASSWORD: &str = "S3cret-pass\u{e9}";

fn all_commands() -> Vec<String> {
    let mut t = super::c06::command_table();
    for extra in ["SHUTDOWN", "FLUSHALL", "FLUSHDB", "REPLCONF", "SYNC", "PSYNC", "MONITOR", "CONFIG", "DEBUG", "SLEEP", "SWAPDB", "REPLICAOF", "SLAVEOF", "QUIT"] { if !t.iter().any(|x| x == extra) { t.push(extra.to_string()); } }
    t.sort();
    t
}

fn plausible_args(name: &str, r: &mut Rng) -> Vec<B> {
    let k = *r.pick(&["kstr", "klist", "kset", "khash", "kzset", "newkey"]);
    match name {
        "SET" | "SETNX" | "GETSET" | "APPEND" => vec![b(k), b("pwned")],
        "GET" | "DEL" | "EXISTS" | "TYPE" | "TTL" | "INCR" | "LPOP" | "SMEMBERS" | "HGETALL" | "LLEN" | "STRLEN" | "PERSIST" | "UNLINK" => vec![b(k)],
        "LPUSH" | "RPUSH" | "SADD" | "PUBLISH" => vec![b(k), b("x")],
        "HSET" => vec![b(k), b("f"), b("v")],
        "ZADD" => vec![b(k), b("1"), b("m")],
        "MSET" => vec![b("a"), b("1")],
        "MGET" | "KEYS" => vec![b("*")],
        "SUBSCRIBE" | "PSUBSCRIBE" => vec![b("ch*")],
        "EVAL" => vec![b("return redis.call('SET','evalkey','pwned')"), b("0")],
        "EVALSHA" => vec![b("da39a3ee5e6b4b0d3255bfef95601890afd80709"), b("0")],
        "SCRIPT" => vec![b("LOAD"), b("return 1")],
        "SELECT" => vec![b("1")],
        "EXPIRE" => vec![b(k), b("1")],
        "RENAME" => vec![b(k), b("renamed")],
        "BLPOP" | "BRPOP" => vec![b("klist"), b("0")],
        "XADD" => vec![b("kstream"), b("*"), b("f"), b("v")],
        "PSYNC" => vec![b("?"), b("-1")],
        "REPLCONF" => vec![b("listening-port"), b("6380")],
        "REPLICAOF" | "SLAVEOF" => vec![b("NO"), b("ONE")],
        "CONFIG" => vec![b("GET"), b("requirepass")],
        "CLIENT" => vec![b(*r.pick(&["LIST", "GETNAME", "ID"]))],
        "DEBUG" => vec![b("OBJECT"), b(k)],
        "SLEEP" => vec![b("0")],
        "SHUTDOWN" => vec![b("NOSAVE")],
        "INFO" | "DBSIZE" | "RANDOMKEY" | "FLUSHALL" | "FLUSHDB" | "SAVE" | "BGSAVE" | "LASTSAVE" | "MULTI" | "EXEC" | "DISCARD" | "UNWATCH" | "SYNC" | "MONITOR" | "TIME" | "COMMAND" | "BGREWRITEAOF" | "QUIT" | "PING" => vec![],
        "WATCH" => vec![b(k)],
        "SCAN" => vec![b("0")],
        _ => { let mut a = vec![b(k)]; for _ in 0..r.below(3) { a.push(b(*r.pick(&["0", "1", "x", "-1"]))); } a }
    }
}

fn wrong_passwords(r: &mut Rng) -> Vec<u8> {
    let p = PASSWORD.as_bytes();
    match r.below(10) {
        0 => p[..p.len() - 1].to_vec(), 1 => { let mut v = p.to_vec(); v.push(b'x'); v } 2 => PASSWORD.to_uppercase().into_bytes(), 3 => PASSWORD.to_lowercase().into_bytes(), 4 => vec![],
        5 => { let mut v = p.to_vec(); v.push(0); v } 6 => vec![b'A'; 65536], 7 => { let mut v = p.to_vec(); v[0] ^= 0x20; v } 8 => p[1..].to_vec(), _ => b"S3cret-pass\xe9".to_vec(), // latin-1 instead of utf-8
    }
}

pub fn gen(seed: u64, idx: u64, _tier: Tier) -> Scenario {
    let mut r = Rng::new(seed);
    let mut sc = Scenario::new("C17", seed);
    sc.cfg.requirepass = Some(PASSWORD.to_string());
    let table = all_commands();
    // control connection: authenticates, creates fixtures
    sc.steps.push(Step::Connect { c: 0, inst: 0, buf: 0 });
    sc.steps.push(Step::Cmd { c: 0, a: vec![b("AUTH"), b(PASSWORD)], split: vec![] });
    for a in [vec![b("SET"), b("kstr"), b("v")], vec![b("RPUSH"), b("klist"), b("a")], vec![b("SADD"), b("kset"), b("a")], vec![b("HSET"), b("khash"), b("f"), b("v")], vec![b("ZADD"), b("kzset"), b("1"), b("m")]] {
        sc.steps.push(Step::Cmd { c: 0, a, split: vec![] });
    }
    sc.steps.push(Step::Ctl { name: "snapshot".into(), n: 0, a: vec![] });
    // the unauthenticated connection: a window of the command table (systematic over run indices) in one of five positions
    let position = idx % 5; // 0 first command, 1 after failed AUTH, 2 middle of a pipeline, 3 after another connection authenticated, 4 inside a would-be transaction
    let per = 12usize;
    let start = ((idx / 5) as usize * per) % table.len();
    sc.steps.push(Step::Connect { c: 1, inst: 0, buf: 0 });
    if position == 1 { sc.steps.push(Step::Ctl { name: "u".into(), n: 1, a: { let mut a = vec![b("AUTH")]; a.push(B(wrong_passwords(&mut r))); a } }); }
    if position == 3 { sc.steps.push(Step::Connect { c: 2, inst: 0, buf: 0 }); sc.steps.push(Step::Cmd { c: 2, a: vec![b("AUTH"), b(PASSWORD)], split: vec![] }); }
    if position == 4 { sc.steps.push(Step::Ctl { name: "u".into(), n: 1, a: vec![b("MULTI")] }); }
    for j in 0..per {
        let name = &table[(start + j) % table.len()];
        let mut a = vec![b(name)];
        a.extend(plausible_args(name, &mut r));
        // n: 1 = must be refused with an error; 2 = harmless (PING/QUIT/AUTH-wrong handled separately)
        let n = match name.as_str() { "PING" => 2, "QUIT" => 3, "AUTH" => 1, _ => 1 };
        if name == "AUTH" { a = vec![b("AUTH"), B(wrong_passwords(&mut r))]; }
        if name == "QUIT" && j + 1 < per { continue; } // QUIT closes the connection: only as the last attempt
        sc.steps.push(Step::Ctl { name: "u".into(), n, a });
        if position == 2 && r.chance(1, 3) { sc.steps.push(Step::Ctl { name: "u".into(), n: 1, a: { let mut a = vec![b("AUTH")]; a.push(B(wrong_passwords(&mut r))); a } }); }
    }
    // deliver the unauthenticated pipeline under a segmentation policy
    sc.steps.push(Step::Ctl { name: "deliver".into(), n: r.below(4) as i64, a: vec![] });
    // the control connection now writes and publishes; nothing may reach the unauthenticated socket
    sc.steps.push(Step::Ctl { name: "compare".into(), n: 0, a: vec![] });
    sc.steps.push(Step::Cmd { c: 0, a: vec![b("SET"), b("after"), b("1")], split: vec![] });
    sc.steps.push(Step::Cmd { c: 0, a: vec![b("PUBLISH"), b("ch1"), b("secret-message")], split: vec![] });
    sc.steps.push(Step::Cmd { c: 0, a: vec![b("LPUSH"), b("klist"), b("wake")], split: vec![] });
    sc.steps.push(Step::Cmd { c: 0, a: vec![b("INFO")], split: vec![] });
    sc.steps.push(Step::Turns { n: 4 });
    sc.steps.push(Step::Ctl { name: "quiet".into(), n: 0, a: vec![] });
    // finally only the exact password authenticates, per connection
    if position != 3 || true {
        sc.steps.push(Step::Ctl { name: "auth-ok".into(), n: 0, a: vec![] });
    }
    sc
}

pub fn exec(sc: &Scenario) -> Outcome {
    let mut h = H::new(sc);
    if let Err(e) = h.boot(&sc.cfg, "a") { return Outcome { verdict: "harness".into(), note: e, ..Default::default() }; }
    let storage = h.sim.instances[0].storage.clone();
    let dump_all = |st: &ferrous::StorageEngine| -> String { (0..16).map(|d| format!("{:?}", st.verif_dump(d).iter().map(|e| (e.key.clone(), format!("{:?}", e.value), e.ttl_ns.is_some())).collect::<Vec<_>>())).collect::<Vec<_>>().join("|") };
    // (a minimised scenario may have lost its snapshot step: without one there is nothing to compare with)
    let mut snapshot: Option<String> = None;
    let mut pending: Vec<(i64, Vec<Vec<u8>>)> = Vec::new();
    let mut expected_replies = 0usize;
    let mut u_closed_by_quit = false;
    for (i, st) in sc.steps.iter().enumerate() {
        h.step_no = i;
        if h.dead.is_some() { break; }
        match st {
            Step::Connect { c, inst, buf } => { h.connect(*c, *inst, *buf); }
            Step::Cmd { c, a, split } => {
                if let Some(ci) = h.cl(*c) {
                    let args = args_of(a);
                    let r = h.cmd(ci, &args, split);
                    let verb = String::from_utf8_lossy(&args[0]).to_uppercase();
                    match (&r.reply, verb.as_str()) {
                        (Some(R::Int(n)), "PUBLISH") if *n != 0 => h.violate("C17/publish-reached-unauthenticated".into(), format!("PUBLISH ch1 by the control connection reports {} receivers although only an unauthenticated connection tried to subscribe", n)),
                        (Some(R::Bulk(b)), "INFO") => { let s = String::from_utf8_lossy(b); if let Some(l) = s.lines().find(|l| l.starts_with("connected_slaves:")) { if l.trim() != "connected_slaves:0" { h.violate("C17/replica-registered".into(), format!("INFO on the control connection shows {} after an unauthenticated connection attempted replication commands", l.trim())); } } }
                        (None, _) => h.violate(format!("C17/control-no-reply/{}", verb), show_cmd(&args)),
                        (Some(rep), "AUTH") if *rep != R::ok() => h.violate("C17/right-password-refused".into(), rep.short()),
                        _ => {}
                    }
                }
            }
            Step::Turns { n } => { for _ in 0..*n { h.turn(); } }
            Step::Ctl { name, .. } if name == "snapshot" => { snapshot = Some(dump_all(&storage)); }
            Step::Ctl { name, n, a } if name == "u" => { pending.push((*n, args_of(a))); }
            Step::Ctl { name, n, .. } if name == "deliver" => {
                let ci = match h.cl(1) { Some(x) => x, None => continue };
                let mut stream = Vec::new();
                for (_, a) in &pending { stream.extend_from_slice(&resp::encode_cmd(a)); }
                expected_replies = pending.len();
                let split: Vec<u32> = match n { 0 => vec![], 1 => vec![(stream.len() / 2) as u32], 2 => { let mut v = Vec::new(); let mut left = stream.len(); while left > 7 { v.push(7); left -= 7; } v } _ => vec![1; stream.len().min(200)] };
                h.send_bytes(ci, &stream, &split);
                for _ in 0..(8 + stream.len() / 2048) { h.turn(); if h.cs[ci].n_replies as usize >= expected_replies { break; } }
                // judge the replies
                let got: Vec<R> = h.cs[ci].replies.iter().cloned().collect();
                if let Some(pe) = h.cs[ci].proto_err.clone() {
                    let verb = pending.get(got.len()).map(|(_, a)| String::from_utf8_lossy(&a[0]).to_uppercase()).unwrap_or_default();
                    h.violate(format!("C17/unsolicited-bytes/{}", verb), format!("the unauthenticated connection received bytes that are not a RESP reply (after {} replies): {}", got.len(), pe));
                }
                for (qi, (kind, a)) in pending.iter().enumerate() {
                    let verb = String::from_utf8_lossy(&a[0]).to_uppercase();
                    match got.get(qi) {
                        None => { if h.cs[ci].proto_err.is_none() && !(u_closed_by_quit) { h.violate(format!("C17/no-reply/{}", verb), format!("unauthenticated `{}` got no reply ({} of {} replies)", show_cmd(a), got.len(), pending.len())); } break; }
                        Some(rep) => {
                            let ok = match kind { 1 => rep.is_err(), 2 => *rep == R::Simple(b"PONG".to_vec()) || rep.is_err(), 3 => { u_closed_by_quit = true; true } _ => true };
                            if !ok { h.violate(format!("C17/not-refused/{}", verb), format!("unauthenticated `{}` answered by {} instead of an error", show_cmd(a), rep.short())); }
                            h.count("unauth_attempts", 1);
                        }
                    }
                }
            }
            Step::Ctl { name, .. } if name == "compare" => {
                let now = dump_all(&storage);
                if snapshot.as_ref().map_or(false, |s| *s != now) { h.violate("C17/dataset-changed".into(), format!("the dataset changed while only an unauthenticated connection was sending commands: {}", pending.iter().map(|(_, a)| String::from_utf8_lossy(&a[0]).to_string()).collect::<Vec<_>>().join(","))); }
            }
            Step::Ctl { name, .. } if name == "quiet" => {
                if let Some(ci) = h.cl(1) {
                    let extra = h.cs[ci].n_replies as usize;
                    let raw_left = h.sim.clients[ci].rx.len();
                    if extra > expected_replies || (raw_left > 0 && h.cs[ci].proto_err.is_none()) {
                        let first = h.cs[ci].replies.get(expected_replies).map(|r| r.short()).unwrap_or_else(|| resp::escape(&h.sim.clients[ci].rx));
                        h.violate("C17/unsolicited-bytes/after-control-activity".into(), format!("the unauthenticated connection received {} frames for {} requests; first surplus: {}", extra, expected_replies, first));
                    }
                }
            }
            Step::Ctl { name, .. } if name == "auth-ok" => {
                // a fresh connection: wrong password keeps it out, the exact one lets it in, and the other stays out
                let c = h.connect(50, 0, 0);
                let r1 = h.cmd_s(c, &["GET", "kstr"]);
                if !r1.as_ref().map_or(false, |r| r.is_err()) { h.violate("C17/not-refused/GET".into(), format!("fresh connection GET -> {:?}", r1.map(|r| r.short()))); }
                let r2 = h.cmd(c, &[b"AUTH".to_vec(), PASSWORD.as_bytes().to_vec()], &[]).reply;
                if r2 != Some(R::ok()) { h.violate("C17/right-password-refused".into(), format!("{:?}", r2.map(|r| r.short()))); }
                let r3 = h.cmd_s(c, &["GET", "kstr"]);
                // (judged only if the scenario still creates the key: a minimised scenario may have lost its fixture steps)
                let has_fixture = matches!(sc.steps.first(), Some(Step::Connect { c: 0, .. })) && matches!(sc.steps.get(1), Some(Step::Cmd { c: 0, a, .. }) if a.first().map_or(false, |x| x.0 == b"AUTH"))
                    && sc.steps.iter().any(|s| matches!(s, Step::Cmd { c: 0, a, .. } if a.len() == 3 && a[0].0 == b"SET" && a[1].0 == b"kstr" && a[2].0 == b"v"));
                if has_fixture && r3 != Some(R::Bulk(b"v".to_vec())) { h.violate("C17/authenticated-read-failed".into(), format!("{:?}", r3.map(|r| r.short()))); }
                if let Some(u) = h.cl(1) { if !h.sim.clients[u].eof && !h.sim.clients[u].closed && h.cs[u].proto_err.is_none() {
                    let r4 = h.cmd_s(u, &["GET", "kstr"]);
                    if let Some(rep) = r4 { if !rep.is_err() { h.violate("C17/authentication-not-per-connection".into(), format!("after another connection authenticated, the unauthenticated one read {}", rep.short())); } }
                } }
            }
            _ => {}
        }
    }
    h.health_violations("C17");
    h.finish(sc.seed)
}

pub static DEF: CheckDef = CheckDef {
    id: "C17", level: "exploration", gen, exec,
    nontrivial: |o| o.counters.get("unauth_attempts").copied().unwrap_or(0) >= 5,
    rule: "server booted with requirepass; run index i covers window (i/5) of 12 commands of the full command table (extracted from /repo's dispatch match arms + static list incl. SYNC, PSYNC, REPLCONF, MONITOR, SUBSCRIBE, EVAL, MULTI, SHUTDOWN, FLUSHALL, CONFIG) in position i%5 in {first command, after a failed AUTH, middle of a pipeline with failed AUTHs in between, after another connection authenticated, inside a would-be transaction}, sent as one pipeline under 4 segmentation styles, with wrong passwords drawn from {prefix, suffix, upper, lower, empty, NUL-terminated, 64 KiB, case-flipped first byte, latin-1 re-encoding}; oracle: every reply is an error (PING may answer), the stored dataset of all 16 databases is byte-identical before/after, the control connection's PUBLISH reports 0 receivers and INFO shows connected_slaves:0, the unauthenticated socket receives nothing unsolicited while the control connection writes/publishes/pushes, and afterwards only the exact password authenticates, per connection; the whole table is covered every 5*ceil(|table|/12) runs; non-trivial = at least 5 unauthenticated attempts judged",
    quick_budget_s: 30.0, thorough_budget_s: 600.0, quick_max_runs: 1_000_000, thorough_max_runs: 100_000_000, exhaustive: false, exhaustive_after: |_| 5 * ((all_commands_len() + 11) / 12),
    real: REAL_WHOLE_SERVER, stub: STUB_WHOLE_SERVER, assumptions: ASSUME_COMMON,
};
fn all_commands_len() -> u64 { all_commands().len() as u64 }
