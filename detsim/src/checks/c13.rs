//! C13 — blocking pops never lose, duplicate or strand elements or clients.
use super::multi::{upper, Multi};
use super::*;
use crate::harness::*;
use crate::model::keyspace::{Entry, Val};
use crate::resp::{self, R};
use crate::scenario::*;
use std::collections::BTreeMap;

pub fn gen(seed: u64, _idx: u64, tier: Tier) -> Scenario {
    let mut r = Rng::new(seed);
    let mut sc = Scenario::new("C13", seed);
    let nc = r.range(2, 5) as usize;
    let keys: Vec<&str> = match r.below(3) { 0 => vec!["l1"], 1 => vec!["l1", "l2"], _ => vec!["l1", "l2", "l3"] };
    for c in 0..nc { sc.steps.push(Step::Connect { c, inst: 0, buf: 0 }); }
    let mut uniq = 0u64;
    let mut blocked = vec![false; nc];
    let mut t: u64 = 0;
    let mut deadlines: Vec<u64> = Vec::new();
    let n = match tier { Tier::Quick => r.range(6, 40), Tier::Thorough => r.range(6, 60) };
    let multi_key = r.chance(1, 2);
    let with_close = r.chance(1, 3);
    // transient outcomes of the server's reads / writes on a client's socket (must not lose, duplicate or misdeliver anything)
    let syscall_faults = r.chance(1, 3);
    sc.knobs.insert("syscall_faults".into(), syscall_faults as i64);
    for _ in 0..n {
        let c = r.below(nc as u64) as usize;
        if syscall_faults && r.chance(1, 5) { sc.steps.push(transient_fault(&mut r, nc)); }
        match r.weighted(&[22, 22, 8, 6, 4, 4, 12, 8, 3, 2, 9]) {
            0 => { // block
                if blocked[c] { continue; }
                let mut a = vec![b(*r.pick(&["BLPOP", "BLPOP", "BRPOP"]))];
                let nk = if multi_key { r.range(1, keys.len() as i64) } else { 1 };
                let mut ks: Vec<&str> = Vec::new();
                while (ks.len() as i64) < nk { let k = *r.pick(&keys); if !ks.contains(&k) { ks.push(k); } }
                for k in &ks { a.push(b(k)); }
                let tmo = *r.pick(&["0", "0", "0.05", "0.5", "1", "2.5", "5"]);
                a.push(b(tmo));
                if let Ok(f) = tmo.parse::<f64>() { if f > 0.0 { deadlines.push(t + (f * 1e9) as u64); } }
                sc.steps.push(Step::Send { c, a, split: vec![] });
                blocked[c] = true; // may in fact be served at once; the generator's view is only a heuristic
                // now and then more requests follow the blocking one in the same batch: they wait until it has been answered;
                // and a client that has sent more and then goes away must not be handed an element any more
                if r.chance(1, 8) {
                    sc.steps.push(Step::Ctl { name: "behind".into(), n: 0, a: vec![] });
                    // (a request without effect and with a reply that does not depend on the dataset: when exactly it runs among the
                    // other clients' requests after the unblocking does not matter)
                    uniq += 1;
                    sc.steps.push(Step::Send { c, a: vec![b("ECHO"), b(&format!("behind{}", uniq))], split: vec![] });
                    if with_close && nc > 2 && r.chance(1, 3) { sc.steps.push(Step::Turns { n: r.range(1, 3) as u32 }); sc.steps.push(Step::Close { c, half: false }); sc.steps.push(Step::Connect { c, inst: 0, buf: 0 }); blocked[c] = false; }
                }
            }
            1 => { // push 1-3 unique elements
                if blocked[c] { continue; }
                let mut a = vec![b(*r.pick(&["RPUSH", "RPUSH", "LPUSH"])), b(*r.pick(&keys))];
                for _ in 0..r.range(1, 3) { uniq += 1; a.push(b(&format!("e{}", uniq))); }
                sc.steps.push(Step::Send { c, a, split: vec![] });
                for x in blocked.iter_mut() { if r.chance(1, 2) { *x = false; } }
            }
            2 => { if !blocked[c] { sc.steps.push(Step::Send { c, a: vec![b(*r.pick(&["LPOP", "RPOP"])), b(*r.pick(&keys))], split: vec![] }); } }
            3 => { // pipelined push + pop by the same client in one turn
                if blocked[c] { continue; }
                uniq += 1;
                let k = *r.pick(&keys);
                sc.steps.push(Step::Send { c, a: vec![b("RPUSH"), b(k), b(&format!("e{}", uniq))], split: vec![] });
                sc.steps.push(Step::Send { c, a: vec![b("LPOP"), b(k)], split: vec![] });
            }
            4 => { // push from MULTI/EXEC
                if blocked[c] { continue; }
                uniq += 2;
                let k = *r.pick(&keys);
                for a in [vec![b("MULTI")], vec![b("RPUSH"), b(k), b(&format!("e{}", uniq - 1))], vec![b("RPUSH"), b(*r.pick(&keys)), b(&format!("e{}", uniq))], vec![b("EXEC")]] { sc.steps.push(Step::Send { c, a, split: vec![] }); }
            }
            5 => { // push from a script
                if blocked[c] { continue; }
                uniq += 1;
                sc.steps.push(Step::Send { c, a: vec![b("EVAL"), b("return redis.call(unpack(ARGV))"), b("0"), b("RPUSH"), b(*r.pick(&keys)), b(&format!("e{}", uniq))], split: vec![] });
            }
            6 => sc.steps.push(Step::Turns { n: r.range(1, 3) as u32 }),
            7 => { // move the clock relative to a timeout
                let live: Vec<u64> = deadlines.iter().copied().filter(|d| *d > t).collect();
                let target = if !live.is_empty() && r.chance(3, 4) { let d = *r.pick(&live); match r.below(3) { 0 => d.saturating_sub(*r.pick(&[1u64, 1_000_000])).max(t), 1 => d, _ => d + *r.pick(&[1u64, 1_000_000, 1_000_000_000]) } } else { t + *r.pick(&[10_000_000u64, 300_000_000, 1_200_000_000]) };
                if r.chance(1, 8) { sc.steps.push(Step::RealStep { ns: *r.pick(&[-3_600_000_000_000i64, -700_000_000, 700_000_000, 3_600_000_000_000]) }); }
                if target > t { sc.steps.push(Step::Turns { n: 1 }); sc.steps.push(Step::Adv { ns: target - t }); t = target; sc.steps.push(Step::Turns { n: 2 }); for x in blocked.iter_mut() { if r.chance(1, 2) { *x = false; } } }
            }
            8 => { if !blocked[c] { sc.steps.push(Step::Send { c, a: vec![b("DEL"), b(*r.pick(&keys))], split: vec![] }); } }
            9 => { if with_close && nc > 2 { sc.steps.push(Step::Close { c, half: false }); sc.steps.push(Step::Connect { c, inst: 0, buf: 0 }); blocked[c] = false; } }
            _ => { sc.steps.push(Step::Ctl { name: "check".into(), n: 0, a: vec![] }); for x in blocked.iter_mut() { if r.chance(2, 3) { *x = false; } } }
        }
    }
    sc.steps.push(Step::Ctl { name: "check".into(), n: 1, a: vec![] });
    sc
}

fn quiescent_checks(m: &mut Multi, closed: &BTreeMap<usize, bool>) {
    if m.h.dead.is_some() { return; }
    if !m.settle(16) { return; }
    if m.poisoned { return; }
    let now = m.h.sim.now();
    m.h.count("quiescent_checks", 1);
    // (1) promptness: a live blocked client whose key holds an element nobody else is popping must have been served
    let ids: Vec<usize> = m.cl.keys().copied().collect();
    for c in &ids {
        let (blocked, gone) = { let cl = &m.cl[c]; (cl.blocked.clone(), cl.gone) };
        if gone { continue; }
        if let Some(b) = blocked {
            for k in &b.keys {
                if let Some(Entry { val: Val::List(l), .. }) = m.model.dbs[b.db].map.get(k) { if !l.is_empty() {
                    m.h.violate("C13/stranded/element-available".to_string(), format!("at a quiescent point client {} is still blocked on {:?} (since turn {}) although list {} holds {} element(s): {:?}", c, b.keys.iter().map(|k| resp::escape(k)).collect::<Vec<_>>(), b.since_turn, resp::escape(k), l.len(), l.iter().take(3).map(|e| resp::escape(e)).collect::<Vec<_>>()));
                } }
            }
            if let Some(d) = b.deadline { if d < now {
                m.h.violate("C13/stranded/timeout-never-delivered".to_string(), format!("at a quiescent point client {} is still blocked although its timeout deadline {} has passed (now {})", c, d, now));
            } }
        }
    }
    // (2) no residue: clients that are not blocked (served, timed out, or never blocked) have no registration left
    let (snap, queued) = m.h.sim.instances[m.h.inst].blocking.verif_snapshot();
    for (db, key, conns) in &snap {
        for id in conns {
            // server connection ids are handed out in accept order starting at 1
            let owner = m.cl.iter().find(|(_, cl)| (m.h.sim.clients[cl.sim].conn as u64 + 1) == *id).map(|(c, _)| *c);
            match owner {
                Some(c) => { let cl = &m.cl[&c]; if cl.blocked.is_none() && !cl.gone { m.h.violate("C13/residue/registration-after-service".to_string(), format!("client {} is not blocked any more but is still registered as a waiter on db{} key {}", c, db, resp::escape(key))); } }
                None => { if !closed.values().any(|x| *x) { m.h.violate("C13/residue/unknown-connection".to_string(), format!("connection id {} is registered on key {} but belongs to no live client", id, resp::escape(key))); } }
            }
        }
    }
    let _ = queued;
    // (3) conservation: pushed = delivered + remaining
    let mut pushed: BTreeMap<Vec<u8>, i64> = BTreeMap::new();
    let mut delivered: BTreeMap<Vec<u8>, i64> = BTreeMap::new();
    let mut queue: Vec<Vec<Vec<u8>>> = Vec::new();
    let mut deleted_lists = false;
    for d in m.history.iter() {
        let verb = upper(&d.args[0]);
        let rep = match &d.reply { Some(r) => r, None => continue };
        let mut acct = |args: &[Vec<u8>], rep: &R, pushed: &mut BTreeMap<Vec<u8>, i64>, delivered: &mut BTreeMap<Vec<u8>, i64>, deleted: &mut bool| {
            let v = upper(&args[0]);
            match v.as_str() {
                "LPUSH" | "RPUSH" => { if matches!(rep, R::Int(_)) { for e in &args[2..] { *pushed.entry(e.clone()).or_insert(0) += 1; } } }
                "LPOP" | "RPOP" => { if let R::Bulk(e) = rep { *delivered.entry(e.clone()).or_insert(0) += 1; } }
                "BLPOP" | "BRPOP" => { if let R::Arr(x) = rep { if let Some(R::Bulk(e)) = x.get(1) { *delivered.entry(e.clone()).or_insert(0) += 1; } } }
                "DEL" => { if matches!(rep, R::Int(n) if *n > 0) { *deleted = true; } }
                _ => {}
            }
        };
        match verb.as_str() {
            "MULTI" => { queue.clear(); }
            "EXEC" => { if let R::Arr(items) = rep { for (q, r) in queue.iter().zip(items.iter()) { acct(q, r, &mut pushed, &mut delivered, &mut deleted_lists); } } queue.clear(); }
            "EVAL" if d.args.len() > 3 && d.args[1] == b"return redis.call(unpack(ARGV))" => { let inner: Vec<Vec<u8>> = d.args[3..].to_vec(); if !rep.is_err() { acct(&inner, &R::Int(1), &mut pushed, &mut delivered, &mut deleted_lists); } }
            _ => { if matches!(rep, R::Simple(s) if s == b"QUEUED") { queue.push(d.args.clone()); } else { acct(&d.args, rep, &mut pushed, &mut delivered, &mut deleted_lists); } }
        }
    }
    if !deleted_lists {
        let storage = m.h.sim.instances[m.h.inst].storage.clone();
        let mut remaining: BTreeMap<Vec<u8>, i64> = BTreeMap::new();
        for e in storage.verif_dump(0) { if let ferrous::verif::DumpValue::List(l) = e.value { for x in l { *remaining.entry(x).or_insert(0) += 1; } } }
        for (e, n) in &pushed {
            let got = delivered.get(e).copied().unwrap_or(0) + remaining.get(e).copied().unwrap_or(0);
            if got < *n {
                // was it sent to a client that had disconnected while blocked?
                let to_gone = m.cl.values().any(|cl| cl.gone);
                m.h.violate(format!("C13/conservation/element-lost/{}", if to_gone { "after-disconnect" } else { "all-clients-alive" }), format!("element {} was pushed {} time(s) but is neither in a list nor was it returned to any client (delivered {}, remaining {})", resp::escape(e), n, delivered.get(e).copied().unwrap_or(0), remaining.get(e).copied().unwrap_or(0)));
                break;
            }
            if got > *n { m.h.violate("C13/conservation/element-duplicated".to_string(), format!("element {} was pushed {} time(s) but accounted {} times (delivered {}, remaining {})", resp::escape(e), n, got, delivered.get(e).copied().unwrap_or(0), remaining.get(e).copied().unwrap_or(0))); break; }
        }
    }
}

pub fn exec(sc: &Scenario) -> Outcome {
    let mut h = H::new(sc);
    if let Err(e) = h.boot(&sc.cfg, "a") { return Outcome { verdict: "harness".into(), note: e, ..Default::default() }; }
    let mut m = Multi::new(h, "C13");
    let mut behind = false; // the next request is sent although a blocking pop of this client is still unanswered
    let mut closed: BTreeMap<usize, bool> = BTreeMap::new();
    // FIFO bookkeeping: order in which clients blocked per key, checked when they are served
    for (i, st) in sc.steps.iter().enumerate() {
        m.h.step_no = i;
        if m.h.dead.is_some() { break; }
        match st {
            Step::Connect { c, .. } => { if m.cl.get(c).map_or(true, |x| x.gone) { m.connect(*c); } }
            Step::Send { c, a, .. } => {
                // a client that has sent a blocking pop waits for its answer before sending anything else
                let waiting = m.cl.get(c).map_or(true, |x| x.blocked.is_some() || x.gone || x.inflight.iter().any(|i| { let v = upper(&i.args[0]); v == "BLPOP" || v == "BRPOP" }));
                if !waiting || (behind && m.cl.get(c).map_or(false, |x| !x.gone)) { m.send(*c, &args_of(a)); }
                behind = false;
            }
            Step::Ctl { name, .. } if name == "behind" => { behind = true; }
            Step::Turns { n } => m.turns(*n),
            Step::Arm { fop, conn: Some(c), nth, action, .. } => m.arm(*c, *fop, *nth, *action),
            Step::Adv { ns } => { m.h.sim.advance(*ns); }
            Step::RealStep { ns } => { m.h.sim.step_real(*ns); }
            Step::Close { c, .. } => { if m.cl.get(c).map_or(false, |x| x.blocked.is_some()) { m.h.count("probe_blocked_client_disconnected", 1); } m.turns(2); closed.insert(*c, true); m.close(*c); m.turns(2); }
            Step::Ctl { name, .. } if name == "check" => quiescent_checks(&mut m, &closed),
            _ => {}
        }
        // FIFO: whenever a delivery happened in this step, it must have gone to the earliest-blocked live waiter of that key
    }
    m.finish(sc.seed)
}

pub static DEF: CheckDef = CheckDef {
    id: "C13", level: "exploration", gen, exec,
    nontrivial: |o| o.counters.get("blocked_registered").copied().unwrap_or(0) >= 1 && o.counters.get("quiescent_checks").copied().unwrap_or(0) >= 1,
    rule: "one run = 2-5 clients over 1-3 list keys: BLPOP/BRPOP on 1-3 keys with timeout 0 / 0.05..5 s, LPUSH/RPUSH of 1-3 unique elements, LPOP/RPOP, pipelined push+pop in one turn, pushes from MULTI/EXEC and from scripts, DEL, blocked clients disconnecting; requests of several clients are delivered before the same loop turn (the server's service order decides who wins), the virtual clock is moved to just before / at / after each timeout deadline; the sequential model follows the server's actual execution order, a served element must be the element at the proper end of the proper list at that moment and go to the earliest-blocked live waiter of that key (FIFO), nil never before the deadline and never for timeout 0; at quiescent points (two idle loop turns): no live blocked client whose key holds an element or whose deadline has passed (promptness/stranding), no registry entry (read-only accessor) for a client that is not blocked (residue), multiset(pushed) = multiset(returned to clients) + multiset(still in lists) (conservation); now and then further requests follow a blocking pop in the same batch (they must wait for its reply), and a blocked client that has sent more goes away; in a quarter to a third of the runs single reads / writes of the server on a client's socket are made to fail with EINTR, to come back empty-handed (EAGAIN, reads only) or to transfer only 1..100 bytes (fault injection at the libc boundary) - transient outcomes that must not change any reply or the dataset; non-trivial = at least one client actually blocked and one quiescent check; the realtime clock is stepped by up to +-1 h at random points (timeouts are monotonic-clock deadlines and must not move)",
    quick_budget_s: 40.0, thorough_budget_s: 900.0, quick_max_runs: 1_000_000, thorough_max_runs: 100_000_000, exhaustive: false, exhaustive_after: |_| 0,
    real: REAL_WHOLE_SERVER, stub: STUB_WHOLE_SERVER, assumptions: ASSUME_COMMON,
};
