//! Check registry: one module per property.
#![allow(dead_code)]

use crate::harness::Outcome;
use crate::scenario::Scenario;

#[derive(Clone, Copy, Debug, PartialEq)]
pub enum Tier { Quick, Thorough }

pub struct CheckDef {
    pub id: &'static str,
    pub level: &'static str,
    pub gen: fn(seed: u64, idx: u64, tier: Tier) -> Scenario,
    pub exec: fn(&Scenario) -> Outcome,
    pub nontrivial: fn(&Outcome) -> bool,
    pub rule: &'static str,
    pub quick_budget_s: f64,
    pub thorough_budget_s: f64,
    pub quick_max_runs: u64,
    pub thorough_max_runs: u64,
    pub exhaustive: bool,
    /// number of run indices after which the finite enumerated part of the space is complete (0 = none)
    pub exhaustive_after: fn(Tier) -> u64,
    pub real: &'static [&'static str],
    pub stub: &'static [&'static str],
    pub assumptions: &'static [&'static str],
}

pub const REAL_WHOLE_SERVER: &[&str] = &[
    "ferrous::Server (listener, connection I/O, RESP parser/serializer, dispatch, all command handlers)",
    "ferrous::StorageEngine incl. expiry sweeper thread, skip list, streams, consumer groups",
    "RDB writer/reader, AOF appender, auto-save monitor thread, pub/sub, blocking manager, transactions, Lua (vendored C Lua 5.1 via mlua)",
    "Rust std socket/file/thread/sync code, kernel AF_UNIX stream sockets, tmpfs files",
];
pub const STUB_WHOLE_SERVER: &[&str] = &[
    "CLOCK_MONOTONIC / CLOCK_REALTIME (virtual, owned by the simulator)",
    "thread scheduling and sleeping (baton scheduler; futex waits/wakes emulated)",
    "process entropy (getrandom: seed-derived stream per thread)",
    "TCP accept/bind/listen (socketpair injected through accept4); TCP options absorbed",
    "process exit/crash/restart; I/O faults at the libc boundary",
];
pub const ASSUME_COMMON: &[&str] = &[
    "pre-emption granularity is the yield-point set (storage-lock acquisition, sweeper phases, RDB per key, loop turn, sleeps, futex waits)",
    "AF_UNIX stream pairs stand in for TCP connections",
    "the harness' reference model encodes Redis semantics as documented; no Redis binary is available in the sandbox",
    "sampling, not enumeration: a clean batch is evidence, not proof",
];

pub mod smoke;
pub mod seq;
pub mod c01;
pub mod c02;
pub mod c03;
pub mod c04;
pub mod c05;
pub mod c06;
pub mod multi;
pub mod c07;
pub mod c08;
pub mod c09;
pub mod c10;
pub mod c11;
pub mod c12;
pub mod c13;
pub mod c14;
pub mod c15;
pub mod c16;
pub mod c17;
pub mod c18;
pub mod c19;
pub mod c20;

pub fn all() -> Vec<&'static CheckDef> {
    vec![&smoke::DEF, &c01::DEF, &c02::DEF, &c03::DEF, &c04::DEF, &c05::DEF, &c06::DEF, &c07::DEF, &c08::DEF, &c09::DEF, &c10::DEF, &c11::DEF, &c12::DEF, &c13::DEF, &c14::DEF, &c15::DEF, &c16::DEF, &c17::DEF, &c18::DEF, &c19::DEF, &c20::DEF]
}
pub fn find(id: &str) -> Option<&'static CheckDef> { all().into_iter().find(|d| d.id.eq_ignore_ascii_case(id)) }

/// A transient outcome of one of the server's next reads / writes on a random client's socket.
pub fn transient_fault(r: &mut crate::scenario::Rng, nc: usize) -> crate::scenario::Step {
    use crate::scenario::Step;
    let fop = if r.chance(1, 2) { crate::world::Op::Recv } else { crate::world::Op::Send };
    // (a write that comes back empty-handed would defer the reply to a later turn; the multi-client executor takes the
    // arrival of a reply as the moment its command ran, so on the write side only outcomes the server retries at once)
    let action = match r.below(4) { 0 => crate::world::Action::Errno(libc::EINTR), 1 => if matches!(fop, crate::world::Op::Recv) { crate::world::Action::Errno(libc::EAGAIN) } else { crate::world::Action::Short(3) }, 2 => crate::world::Action::Short(1), _ => crate::world::Action::Short(*r.pick(&[2usize, 7, 100])) };
    Step::Arm { fop, conn: Some(r.below(nc as u64) as usize), class: None, nth: r.below(3), action, inst: 0 }
}
