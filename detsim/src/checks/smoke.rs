//! Smoke/determinism workload: mixed commands, segmentation, clock movement, sweeper, SPOP.
use super::*;
use crate::harness::*;
use crate::scenario::*;

pub fn gen(seed: u64, _idx: u64, _tier: Tier) -> Scenario {
    let mut r = Rng::new(seed);
    let mut sc = Scenario::new("SMOKE", seed);
    sc.knobs.insert("preempt".into(), *r.pick(&[0, 10, 100, 500]));
    sc.steps.push(Step::Connect { c: 0, inst: 0, buf: 0 });
    sc.steps.push(Step::Connect { c: 1, inst: 0, buf: 0 });
    let keys = ["a", "b", "c", "d"];
    for _ in 0..r.range(20, 120) {
        let k = *r.pick(&keys);
        let c = r.below(2) as usize;
        let a: Vec<B> = match r.below(10) {
            0 => vec![b("SET"), b(k), b("v")],
            1 => vec![b("SET"), b(k), b("v"), b("PX"), b(&format!("{}", r.range(1, 3000)))],
            2 => vec![b("GET"), b(k)],
            3 => vec![b("SADD"), b("s"), b(&format!("m{}", r.below(20)))],
            4 => vec![b("SPOP"), b("s")],
            5 => vec![b("SMEMBERS"), b("s")],
            6 => vec![b("ZADD"), b("z"), b(&format!("{}", r.below(5))), b(&format!("m{}", r.below(20)))],
            7 => vec![b("ZRANGE"), b("z"), b("0"), b("-1")],
            8 => vec![b("INCR"), b("n")],
            _ => vec![b("DEL"), b(k)],
        };
        let len = crate::resp::encode_cmd(&args_of(&a)).len() as u64;
        let split = if r.chance(1, 3) { vec![r.range(1, len as i64 - 1) as u32] } else { vec![] };
        sc.steps.push(Step::Cmd { c, a, split });
        if r.chance(1, 4) { sc.steps.push(Step::Adv { ns: r.below(700_000_000) }); }
    }
    sc
}

pub fn exec(sc: &Scenario) -> Outcome {
    let mut h = H::new(sc);
    h.sim.preempt_permille = sc.knob("preempt", 0) as u32;
    if let Err(e) = h.boot(&sc.cfg, "a") { return Outcome { verdict: "harness".into(), note: e, ..Default::default() }; }
    for (i, st) in sc.steps.iter().enumerate() {
        h.step_no = i;
        match st {
            Step::Connect { c, inst, buf } => { h.connect(*c, *inst, *buf); }
            Step::Cmd { c, a, split } => {
                if let Some(ci) = h.cl(*c) {
                    let r = h.cmd(ci, &args_of(a), split);
                    h.count("cmds", 1);
                    if r.reply.is_none() { h.violate("SMOKE/no-reply".into(), show_cmd(&args_of(a))); }
                    if let Some(rep) = r.reply { h.note(format!("{} -> {}", show_cmd(&args_of(a)), rep.short())); }
                }
            }
            Step::Adv { ns } => h.sim.advance(*ns),
            _ => {}
        }
    }
    h.health_violations("SMOKE");
    h.finish(sc.seed)
}

pub static DEF: CheckDef = CheckDef {
    id: "SMOKE", level: "exploration", gen, exec, nontrivial: |o| o.counters.get("cmds").copied().unwrap_or(0) >= 10,
    rule: "smoke workload", quick_budget_s: 10.0, thorough_budget_s: 60.0, quick_max_runs: 2000, thorough_max_runs: 100000, exhaustive: false, exhaustive_after: |_| 0,
    real: REAL_WHOLE_SERVER, stub: STUB_WHOLE_SERVER, assumptions: ASSUME_COMMON,
};
