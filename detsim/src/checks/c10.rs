//! C10 — the dump on disk is always a complete, loadable, per-key-consistent snapshot.
//! Three kinds of run: (F) a save hit by an injected I/O fault or a crash at one chosen disk
//! operation; (S) a background save whose thread is stepped key by key while clients change the
//! keys it is about to read; (D) start-up from truncated / corrupted dump files.
use super::c09::{diff_restored, fill_cmds, run, snapshot, Snapshot};
use super::*;
use crate::alloc_seam;
use crate::harness::*;
use crate::resp::R;
use crate::scenario::*;
use crate::sim::*;
use crate::world::{Action, FileClass, Op, Reason};
use ferrous::verif::DumpValue;
use std::collections::BTreeMap;

const ERRNOS: &[i32] = &[libc::ENOSPC, libc::EIO, libc::EDQUOT, libc::EACCES, libc::EINTR];

pub fn gen(seed: u64, idx: u64, tier: Tier) -> Scenario {
    let mut r = Rng::new(seed);
    let mut sc = Scenario::new("C10", seed);
    sc.steps.push(Step::Connect { c: 0, inst: 0, buf: 0 });
    let mode = match idx % 3 { 0 => "F", 1 => "S", _ => "D" };
    sc.knobs.insert("mode".into(), match mode { "F" => 0, "S" => 1, _ => 2 });
    let small_fill = |r: &mut Rng, sc: &mut Scenario, n: i64, tag: &str| {
        for i in 0..n {
            let typ = *r.pick(&["string", "list", "set", "hash", "zset", "stream"]);
            let size = *r.pick(&[1u64, 2, 3, 5, 20, 64, 200]);
            sc.steps.push(Step::Ctl { name: "fill".into(), n: (r.next() >> 1) as i64, a: vec![b(typ), b(&format!("{}:{}", tag, i)), b(&format!("{}", size)), b(&format!("{}", r.below(5)))] });
            if r.chance(1, 3) { sc.steps.push(Step::Cmd { c: 0, a: vec![b("PEXPIRE"), b(&format!("{}:{}", tag, i)), b(*r.pick(&["100", "5000", "100000", "100000000"]))], split: vec![] }); }
        }
    };
    match mode {
        "F" => {
            // generation 1 (usually saved successfully first), then changes, then the save that meets the fault
            let has_prev = r.chance(4, 5);
            if r.chance(1, 4) { sc.steps.push(Step::Cmd { c: 0, a: vec![b("SELECT"), b(*r.pick(&["1", "15"]))], split: vec![] }); }
            let n1 = r.range(1, 5); small_fill(&mut r, &mut sc, n1, "g1");
            // a value larger than the writer's buffer makes the save consist of many write calls
            if r.chance(1, 2) { sc.steps.push(Step::Ctl { name: "fill".into(), n: 1, a: vec![b("string"), b("big"), b(*r.pick(&["8000", "8193", "20000", "70000"])), b("1")] }); }
            if has_prev { sc.steps.push(Step::Ctl { name: "good_save".into(), n: 0, a: vec![] }); }
            let n2 = r.range(1, 4); small_fill(&mut r, &mut sc, n2, "g2");
            if r.chance(1, 2) { sc.steps.push(Step::Cmd { c: 0, a: vec![b("DEL"), b("g1:0")], split: vec![] }); }
            let (op, class) = match r.weighted(&[12, 3, 3, 1]) { 0 => ("Write", "DumpTmp"), 1 => ("Open", "DumpTmp"), 2 => ("Rename", "Dump"), _ => ("Fsync", "DumpTmp") };
            // the n-th operation of that kind during the save: early ones densely, later ones sampled
            let nth = if op == "Write" { if r.chance(3, 4) { r.range(0, 3) } else { r.range(0, 14) } } else { 0 };
            let action = match r.weighted(&[8, 3, 3, 4]) {
                0 => format!("errno:{}", r.pick(ERRNOS)),
                1 => format!("short:{}", r.pick(&[1usize, 7, 100, 4096])),
                2 => "crash_before".to_string(),
                _ => format!("crash_after:{}", r.pick(&[0usize, 1, 9, 100, 4096, 1 << 30])),
            };
            let how = *r.pick(&["SAVE", "SAVE", "BGSAVE"]);
            sc.steps.push(Step::Ctl { name: "faulty_save".into(), n: nth, a: vec![b(op), b(class), b(&action), b(how)] });
        }
        "S" => {
            sc.knobs.insert("preempt".into(), *r.pick(&[0, 100]));
            let nk = r.range(2, 8);
            small_fill(&mut r, &mut sc, nk, "k");
            let steps = match tier { Tier::Quick => r.range(4, 25), Tier::Thorough => r.range(4, 60) };
            let how = *r.pick(&["BGSAVE", "BGSAVE", "BGSAVE", "SAVE", "AUTO"]);
            if how == "AUTO" { sc.cfg.auto_save = true; sc.cfg.save_rules = vec![(1, 1)]; }
            sc.steps.push(Step::Ctl { name: "concurrent_save".into(), n: (r.next() >> 1) as i64, a: vec![b(&format!("{}", nk)), b(&format!("{}", steps)), b(how)] });
        }
        _ => {
            let n3 = r.range(1, 6); small_fill(&mut r, &mut sc, n3, "d");
            if r.chance(1, 3) { sc.steps.push(Step::Cmd { c: 0, a: vec![b("SELECT"), b("3")], split: vec![] }); small_fill(&mut r, &mut sc, 2, "e"); }
            let variants = match tier { Tier::Quick => 16, Tier::Thorough => 24 };
            sc.steps.push(Step::Ctl { name: "damaged_loads".into(), n: (r.next() >> 1) as i64, a: vec![b(&format!("{}", variants))] });
        }
    }
    sc
}

fn parse_action(s: &str) -> Action {
    let (k, v) = match s.split_once(':') { Some((k, v)) => (k, v.parse::<i64>().unwrap_or(0)), None => (s, 0) };
    match k { "errno" => Action::Errno(v as i32), "short" => Action::Short(v as usize), "crash_before" => Action::CrashBefore, _ => Action::CrashAfter(v as usize) }
}
fn parse_op(s: &str) -> Op { match s { "Open" => Op::Open, "Write" => Op::Write, "Fsync" => Op::Fsync, _ => Op::Rename } }
fn parse_class(s: &str) -> FileClass { match s { "DumpTmp" => FileClass::DumpTmp, "Dump" => FileClass::Dump, "Aof" => FileClass::Aof, _ => FileClass::Other } }

fn dump_path(h: &H, inst: usize) -> String { format!("{}/dump.rdb", h.sim.instances[inst].dir) }
fn read_dump(h: &H, inst: usize) -> Option<Vec<u8>> { std::fs::read(dump_path(h, inst)).ok() }

/// Kill the current instance (if still alive) and boot a fresh one from the same directory.
fn restart(h: &mut H) -> Result<usize, String> {
    let inst = h.inst;
    h.sim.kill(inst);
    h.dead = None;
    let cfg = h.sim.instances[inst].cfg.clone();
    let dir = h.sim.instances[inst].dir.clone();
    if let Some(i) = h.cl(0) { h.sim.close(i, CloseHow::Close); }
    let ni = h.sim.boot(&cfg, &dir)?;
    h.inst = ni;
    h.connect(0, ni, 0);
    h.count("restarts", 1);
    Ok(ni)
}

fn equal_to(prop: &str, expect: &Snapshot, got: &Snapshot, elapsed: u64) -> Option<String> {
    let mut c = BTreeMap::new();
    diff_restored(prop, expect, got, elapsed, &mut c).into_iter().next().map(|(cl, d)| format!("{}: {}", cl, d))
}
fn empty_snapshot() -> Snapshot { (0..16).map(|_| BTreeMap::new()).collect() }

/// Run the spawned saver thread(s) of `inst` to completion.
fn finish_savers(h: &mut H, inst: usize) {
    let mut guard = 0;
    loop {
        let live = h.sim.spawned_live(inst);
        let runnable: Vec<usize> = live.into_iter().filter(|t| h.sim.is_runnable(*t)).collect();
        if runnable.is_empty() || guard > 200_000 { break; }
        for t in runnable { if matches!(h.sim.step(t, 0, 0, 0), Some(Reason::Crashed)) { h.dead = Some(TurnOutcome::Crashed); return; } }
        guard += 1;
    }
}

fn faulty_save(h: &mut H, prev: &Option<(Vec<u8>, Snapshot, u64)>, nth: u64, a: &[B]) {
    let arg = |i: usize| String::from_utf8_lossy(&a[i].0).to_string();
    let (op, class, action, how) = (parse_op(&arg(0)), parse_class(&arg(1)), parse_action(&arg(2)), arg(3));
    let akind = match action { Action::Errno(_) => "errno", Action::Short(_) => "short", Action::CrashBefore => "crash-before", Action::CrashAfter(_) => "crash-after" };
    let inst = h.inst;
    let s2 = snapshot(h, inst);
    let t2 = h.sim.now();
    let disk0 = crate::world::g().disk_log.len();
    h.sim.arm(inst, op, None, Some(class), nth, action);
    let reply = run(h, &[how.as_bytes().to_vec()]);
    if how == "BGSAVE" && h.dead.is_none() { finish_savers(h, inst); }
    let fired = crate::world::g().armed.iter().any(|x| x.fired);
    crate::world::g().armed.clear();
    let ops = crate::world::g().disk_log.len() - disk0;
    h.count("save_disk_ops", ops as u64);
    if !fired { h.count("fault_beyond_last_operation", 1); } else { h.count(&format!("fault_fired_{:?}_{}", op, akind), 1); }
    let crashed = h.dead.is_some();
    let tag = format!("{:?}/{}/{}", op, akind, how);
    let on_disk = read_dump(h, inst);
    let prev_bytes = prev.as_ref().map(|p| p.0.clone());
    let said_ok = matches!(&reply, Some(R::Simple(_)));
    h.note(format!("faulty {} -> reply {:?}, fired {}, crashed {}, dump {} bytes (previous {:?})", how, reply.as_ref().map(|r| r.short()), fired, crashed, on_disk.as_ref().map_or(-1, |b| b.len() as i64), prev_bytes.as_ref().map(|b| b.len())));
    // what does the file now on disk load to?
    let acknowledged = said_ok && how == "SAVE" && !crashed;
    let unchanged = on_disk == prev_bytes;
    if !crashed && !acknowledged && how == "SAVE" && !unchanged {
        h.violate(format!("C10/failed-save-changed-dump/{}", tag), format!("{} failed ({:?}) at the {}-th {:?} of the save but the dump file changed: {:?} -> {:?} bytes", how, reply.as_ref().map(|r| r.short()), nth, op, prev_bytes.as_ref().map(|b| b.len()), on_disk.as_ref().map(|b| b.len())));
    }
    match restart(h) {
        Err(e) => { h.violate(format!("C10/dump-unloadable/{}", tag), format!("after a save hit by {:?} at the {}-th {:?} (reply {:?}, crashed {}) the dump does not load: {}", action, nth, op, reply.as_ref().map(|r| r.short()), crashed, e)); return; }
        Ok(_) => {}
    }
    let loaded = snapshot(h, h.inst);
    let now = h.sim.now();
    let d_new = equal_to("C10", &s2, &loaded, now - t2);
    let d_old = match prev { Some((_, s1, t1)) => equal_to("C10", s1, &loaded, now - *t1), None => equal_to("C10", &empty_snapshot(), &loaded, 0) };
    if acknowledged {
        if let Some(d) = d_new { h.violate(format!("C10/acknowledged-save-not-on-disk/{}", tag), format!("SAVE answered +OK (fault {:?} at the {}-th {:?}, fired {}) but a restart does not give the saved dataset: {}", action, nth, op, fired, d)); }
    } else if d_new.is_some() && d_old.is_some() {
        h.violate(format!("C10/dump-neither-old-nor-new/{}", tag), format!("after a save hit by {:?} at the {}-th {:?} (crashed {}) a restart gives neither the previously saved dataset ({}) nor the one being saved ({})", action, nth, op, crashed, d_old.unwrap(), d_new.unwrap()));
    } else { h.count(if d_new.is_none() { "restart_gave_new_dataset" } else { "restart_gave_previous_dataset" }, 1); }
    // a later save still works
    if !crashed {
        // (the restarted server holds whatever was loaded; change something and save again)
    }
    run(h, &[b"SET".to_vec(), b"after-fault".to_vec(), b"1".to_vec()]);
    let s3 = snapshot(h, h.inst);
    let t3 = h.sim.now();
    match run(h, &[b"SAVE".to_vec()]) {
        Some(r) if r == R::ok() => {
            match restart(h) {
                Err(e) => h.violate(format!("C10/later-save-unloadable/{}", tag), e),
                Ok(_) => { let l = snapshot(h, h.inst); let el = h.sim.now() - t3; if let Some(d) = equal_to("C10", &s3, &l, el) { h.violate(format!("C10/later-save-wrong/{}", tag), d); } else { h.count("later_save_ok", 1); } }
            }
        }
        other => h.violate(format!("C10/later-save-refused/{}", tag), format!("SAVE after the faulty one -> {:?}", other.map(|r| r.short()))),
    }
}

/// state of one key at one instant: (value, absolute deadline)
type KeyState = Option<(DumpValue, Option<i128>)>;
fn key_states(s: &Snapshot, now: u64) -> BTreeMap<(usize, Vec<u8>), (DumpValue, Option<i128>)> {
    let mut m = BTreeMap::new();
    for (db, d) in s.iter().enumerate() { for (k, e) in d.iter() { if e.ttl_ns.map_or(false, |t| t <= 0) { continue; } m.insert((db, k.clone()), (e.value.clone(), e.ttl_ns.map(|t| t + now as i128))); } }
    m
}

fn concurrent_save(h: &mut H, seed: u64, a: &[B]) {
    let mut r = Rng::new(seed);
    let arg = |i: usize| String::from_utf8_lossy(&a[i].0).to_string();
    let (nk, steps, how) = (arg(0).parse::<u64>().unwrap_or(3), arg(1).parse::<u64>().unwrap_or(8), arg(2));
    let inst = h.inst;
    // history of complete dataset states during the save window
    let mut hist: Vec<BTreeMap<(usize, Vec<u8>), (DumpValue, Option<i128>)>> = Vec::new();
    let record = |h: &mut H, hist: &mut Vec<BTreeMap<(usize, Vec<u8>), (DumpValue, Option<i128>)>>| { let s = snapshot(h, inst); let now = h.sim.now(); hist.push(key_states(&s, now)); };
    record(h, &mut hist);
    let t_start = h.sim.now();
    let mutate = |h: &mut H, r: &mut Rng, uniq: u64| {
        let key = format!("k:{}", r.below(nk)).into_bytes();
        let c: Vec<Vec<u8>> = match r.below(12) {
            0 => vec![b"DEL".to_vec(), key],
            1 => vec![b"SET".to_vec(), key, format!("replaced{}", uniq).into_bytes()],
            2 => vec![b"PEXPIRE".to_vec(), key, r.pick(&["1", "50", "7000", "99999999"]).as_bytes().to_vec()],
            3 => vec![b"PERSIST".to_vec(), key],
            4 => vec![b"RPUSH".to_vec(), key, format!("grow{}", uniq).into_bytes()],
            5 => vec![b"LPOP".to_vec(), key],
            6 => vec![b"ZADD".to_vec(), key, format!("{}", r.range(-5, 5)).into_bytes(), format!("zm{}", r.below(6)).into_bytes()],
            7 => vec![b"ZREM".to_vec(), key, format!("zm{}", r.below(6)).into_bytes()],
            8 => vec![b"SADD".to_vec(), key, format!("sm{}", uniq).into_bytes()],
            9 => vec![b"HSET".to_vec(), key, format!("f{}", r.below(4)).into_bytes(), format!("hv{}", uniq).into_bytes()],
            10 => vec![b"XADD".to_vec(), key, b"*".to_vec(), b"f".to_vec(), format!("xv{}", uniq).into_bytes()],
            _ => vec![b"APPEND".to_vec(), key, format!("+{}", uniq).into_bytes()],
        };
        run(h, &c);
    };
    if how == "SAVE" {
        // the save runs on the server thread: only the expiry sweeper can get in between (pre-emption knob)
        h.sim.advance(*r.pick(&[0u64, 60_000_000]));
        record(h, &mut hist);
        match run(h, &[b"SAVE".to_vec()]) { Some(x) if x == R::ok() => {} other => { h.violate("C10/save-refused".into(), format!("{:?}", other.map(|x| x.short()))); return; } }
        record(h, &mut hist);
    } else {
        h.sim.bg_eager = false;
        if how == "AUTO" {
            // the auto-save monitor thread decides: one change, the rule's second passes, the monitor wakes up and starts a background save
            finish_savers(h, inst); // (a save the monitor may have started while the dataset was being built)
            run(h, &[b"SET".to_vec(), b"k:auto".to_vec(), b"1".to_vec()]);
            h.sim.advance(1_100_000_000);
            record(h, &mut hist);
            if let Some(mon) = h.sim.instances[inst].monitor_tid { let mut g = 0; while h.sim.is_runnable(mon) && h.sim.spawned_live(inst).is_empty() && g < 10_000 { g += 1; if h.sim.step(mon, 0, 0, 0).is_none() { break; } } }
            if h.sim.spawned_live(inst).is_empty() { h.count("autosave_not_triggered", 1); h.sim.bg_eager = true; return; }
            h.count("autosave_triggered", 1);
        } else {
            match run(h, &[b"BGSAVE".to_vec()]) { Some(R::Simple(_)) => {} other => { h.violate("C10/bgsave-refused".into(), format!("{:?}", other.map(|x| x.short()))); h.sim.bg_eager = true; return; } }
        }
        let saver = match h.sim.spawned_live(inst).first().copied() { Some(t) => t, None => { h.count("bgsave_thread_not_found", 1); h.sim.bg_eager = true; return; } };
        let mut uniq = 0u64;
        let mut quanta = 0u64;
        for _ in 0..steps {
            if h.dead.is_some() { break; }
            match r.weighted(&[10, 10, 2, 1, 1]) {
                4 => {
                    // another save is asked for while this one is under way: it may be carried out or refused, but the
                    // file on disk must stay a complete snapshot whichever of the two finishes first
                    let c = *r.pick(&["SAVE", "SAVE", "BGSAVE"]);
                    let rep = run(h, &[c.as_bytes().to_vec()]);
                    h.count(&format!("second_save_{}_{}", c, match &rep { Some(R::Err(_)) => "refused", Some(_) => "accepted", None => "no_reply" }), 1);
                    record(h, &mut hist);
                }
                0 => {
                    // let the saver advance by a few lock acquisitions / keys
                    if h.sim.is_runnable(saver) { let b = r.range(1, 4); h.sim.step(saver, 0, M_SHARD | M_RDB_KEY | M_RDB_SHARED, b); quanta += 1; }
                }
                1 => { uniq += 1; mutate(h, &mut r, uniq); record(h, &mut hist); }
                2 => { h.sim.advance(*r.pick(&[1_000_000u64, 60_000_000, 8_000_000_000])); record(h, &mut hist); }
                _ => {
                    // the expiry sweeper gets a turn
                    let sw = h.sim.instances[inst].sweeper_tid;
                    let mut g = 0; while h.sim.is_runnable(sw) && g < 10_000 { g += 1; if h.sim.step(sw, 0, 0, 0).is_none() { break; } }
                    record(h, &mut hist);
                }
            }
        }
        h.count("saver_quanta_interleaved", quanta);
        finish_savers(h, inst);
        h.sim.bg_eager = true;
        record(h, &mut hist);
    }
    h.count("dataset_states_during_save", hist.len() as u64);
    if read_dump(h, inst).is_none() { h.violate(format!("C10/no-dump-after-{}", how), "the save finished but there is no dump file".into()); return; }
    if h.keep_transcript { if let Some(bytes) = read_dump(h, inst) { let _ = std::fs::write("/tmp/c10_dump.bin", &bytes); h.note(format!("dump file: {} bytes (copied to /tmp/c10_dump.bin)", bytes.len())); } }
    if let Err(e) = restart(h) { h.violate(format!("C10/snapshot-unloadable/{}", how), e); return; }
    let loaded = snapshot(h, h.inst);
    let now = h.sim.now();
    let l = key_states(&loaded, now);
    let tol: i128 = 2_000_000;
    let same_state = |x: &(DumpValue, Option<i128>), y: &(DumpValue, Option<i128>)| -> bool {
        super::c09::same_value(&x.0, &y.0) && match (x.1, y.1) { (None, None) => true, (Some(p), Some(q)) => (p - q).abs() <= tol, _ => false }
    };
    for (k, st) in l.iter() {
        let ok = hist.iter().any(|hs| hs.get(k).map_or(false, |x| same_state(x, st)));
        if !ok {
            let value_ok = hist.iter().any(|hs| hs.get(k).map_or(false, |x| super::c09::same_value(&x.0, &st.0)));
            let ttl_ok = hist.iter().any(|hs| hs.get(k).map_or(false, |x| match (x.1, st.1) { (None, None) => true, (Some(p), Some(q)) => (p - q).abs() <= tol, _ => false }));
            let what = if !value_ok { "value-never-held" } else if !ttl_ok { "deadline-never-held" } else { "value-and-deadline-from-different-instants" };
            h.violate(format!("C10/snapshot-torn/{}/{}/{}", how, super::c09::type_of(&st.0), what),
                format!("db{} key {}: the snapshot holds {} with deadline {:?}; states during the save: {}", k.0, esc(&k.1), trunc(&format!("{:?}", st.0)), st.1,
                    hist.iter().filter_map(|hs| hs.get(k)).map(|x| format!("[{} dl {:?}]", trunc(&format!("{:?}", x.0)), x.1)).collect::<Vec<_>>().join(" ")));
        } else { h.count("snapshot_keys_consistent", 1); }
    }
    // a key that kept one state through the whole save (and is still alive) must be in the snapshot
    if let Some(first) = hist.first() {
        for (k, st) in first.iter() {
            let constant = hist.iter().all(|hs| hs.get(k).map_or(false, |x| same_state(x, st)));
            let alive = st.1.map_or(true, |d| d > now as i128 + tol);
            if constant && alive && !l.contains_key(k) { h.violate(format!("C10/snapshot-lost-key/{}/{}", how, super::c09::type_of(&st.0)), format!("db{} key {} was never touched during the save but is not in the snapshot", k.0, esc(&k.1))); }
        }
    }
    let _ = t_start;
}

fn damaged_loads(h: &mut H, seed: u64, variants: u64) {
    let mut r = Rng::new(seed);
    match run(h, &[b"SAVE".to_vec()]) { Some(x) if x == R::ok() => {} other => { h.violate("C10/save-refused".into(), format!("{:?}", other.map(|x| x.short()))); return; } }
    let inst = h.inst;
    let orig = snapshot(h, inst);
    let good = match read_dump(h, inst) { Some(b) => b, None => { h.violate("C10/no-dump-after-SAVE".into(), "".into()); return; } };
    let cfg = h.sim.instances[inst].cfg.clone();
    h.sim.kill(inst);
    h.count("dump_bytes", good.len() as u64);
    alloc_seam::LIMIT.store(1 << 30, std::sync::atomic::Ordering::Relaxed);
    for v in 0..variants {
        let (kind, bytes, desc): (&str, Vec<u8>, String) = match r.weighted(&[5, 8, 2, 1, 1]) {
            0 => { let n = if r.chance(1, 3) { good.len() - 1 - r.below(12.min(good.len() as u64 - 1)) as usize } else { r.below(good.len() as u64) as usize }; ("prefix", good[..n].to_vec(), format!("first {} of {} bytes", n, good.len())) }
            1 => { let p = r.below(good.len() as u64) as usize; let m = *r.pick(&[0x01u8, 0x80, 0xff, 0x40, 0x7f]); let mut b2 = good.clone(); b2[p] ^= m; ("byte-flip", b2, format!("byte {} ^= {:#x} (was {:#x})", p, m, good[p])) }
            2 => { let p = r.below(good.len() as u64) as usize; let mut b2 = good.clone(); b2[p] = *r.pick(&[0xffu8, 0xfe, 0x80, 0xc0, 0xc3, 0x00]); { let d = format!("byte {} := {:#x}", p, b2[p]); ("byte-set", b2, d) } }
            3 => ("empty", vec![], "empty file".into()),
            _ => { let mut b2 = good.clone(); let n = r.range(1, 64) as usize; b2.extend(r.bytes(n)); ("trailing-garbage", b2, "random bytes appended".into()) }
        };
        let dir = h.sim.new_dir(&format!("dmg{}", v));
        if std::fs::write(format!("{}/dump.rdb", dir), &bytes).is_err() { continue; }
        alloc_seam::set_context(&format!("load of a damaged dump ({})", kind));
        alloc_seam::reset_max();
        let res = h.sim.boot(&cfg, &dir);
        let mx = alloc_seam::max();
        h.count(&format!("damaged_{}", kind), 1);
        if mx > bytes.len() + (64 << 20) { h.violate(format!("C10/damaged-dump/allocation-by-corrupt-length/{}", kind), format!("{}: loading requested {} bytes in one allocation for a {}-byte file", desc, mx, bytes.len())); }
        match res {
            Err(e) if e.contains("panicked") => { let loc = panic_location(&e); h.violate(format!("C10/damaged-dump/panic/{}/{}", kind, loc), format!("{}: {}", desc, e)); }
            Err(_) => { h.count("damaged_load_refused", 1); }
            Ok(ni) => {
                h.count("damaged_load_accepted", 1);
                // the server must be usable with whatever it loaded
                let old_inst = h.inst; h.inst = ni; h.dead = None;
                if let Some(i) = h.cl(0) { h.sim.close(i, CloseHow::Close); }
                h.connect(0, ni, 0);
                let got = snapshot(h, ni);
                // (the format's checksum trailer is not verified by the loader, so damage inside a payload loads as
                // different data; the property's "never" list does not name this - counted, not judged)
                let differs = (0..16).any(|db| got[db].iter().any(|(k, e)| orig[db].get(k).map_or(true, |o| !super::c09::same_value(&o.value, &e.value))));
                if differs { h.count("probe_damaged_dump_loaded_as_different_data", 1); }
                for c in [vec![b"DBSIZE".to_vec()], vec![b"KEYS".to_vec(), b"*".to_vec()]] { if run(h, &c).is_none() && h.dead.is_none() { h.violate(format!("C10/damaged-dump/unusable-after-load/{}", kind), format!("{}: `{}` got no reply", desc, show_cmd(&c))); } }
                if h.dead.is_some() { let p = crate::world::g().panics.last().map(|x| x.1.clone()).unwrap_or_default(); h.violate(format!("C10/damaged-dump/died-after-load/{}/{}", kind, panic_location(&p)), format!("{}: {}", desc, p)); crate::world::g().panics.clear(); h.dead = None; }
                h.sim.kill(ni);
                let _ = old_inst;
            }
        }
        if h.violations.len() > 8 { break; }
    }
    crate::world::g().panics.retain(|_| false);
}

fn trunc(s: &str) -> String { if s.len() > 120 { format!("{}...", &s[..120]) } else { s.to_string() } }

pub fn exec(sc: &Scenario) -> Outcome {
    let mut h = H::new(sc);
    h.sim.preempt_permille = sc.knob("preempt", 0) as u32;
    if let Err(e) = h.boot(&sc.cfg, "a") { return Outcome { verdict: "harness".into(), note: e, ..Default::default() }; }
    let mut prev: Option<(Vec<u8>, Snapshot, u64)> = None;
    let mut damaged = false;
    for (i, st) in sc.steps.iter().enumerate() {
        h.step_no = i;
        if h.dead.is_some() { break; }
        match st {
            Step::Connect { c, buf, .. } => { let inst = h.inst; h.connect(*c, inst, *buf); }
            Step::Cmd { a, .. } => { run(&mut h, &args_of(a)); }
            Step::Adv { ns } => h.sim.advance(*ns),
            Step::Ctl { name, n, a } if name == "fill" && a.len() == 4 => {
                let typ = String::from_utf8_lossy(&a[0].0).to_string();
                let size = String::from_utf8_lossy(&a[2].0).parse::<u64>().unwrap_or(0);
                let flavour = String::from_utf8_lossy(&a[3].0).parse::<i64>().unwrap_or(0);
                for c in fill_cmds(*n as u64, &typ, &a[1].0, size, flavour) { run(&mut h, &c); if h.dead.is_some() { break; } }
            }
            Step::Ctl { name, .. } if name == "good_save" => {
                let s1 = snapshot(&h, h.inst);
                let t1 = h.sim.now();
                match run(&mut h, &[b"SAVE".to_vec()]) { Some(r) if r == R::ok() => { let inst = h.inst; if let Some(bytes) = read_dump(&h, inst) { prev = Some((bytes, s1, t1)); } } other => { h.violate("C10/save-refused".into(), format!("{:?}", other.map(|r| r.short()))); } }
            }
            Step::Ctl { name, n, a } if name == "faulty_save" && a.len() == 4 => { faulty_save(&mut h, &prev, *n as u64, a); h.count("fault_runs", 1); }
            Step::Ctl { name, n, a } if name == "concurrent_save" && a.len() == 3 => { concurrent_save(&mut h, *n as u64, a); h.count("concurrent_runs", 1); }
            Step::Ctl { name, n, a } if name == "damaged_loads" && a.len() == 1 => { let v = String::from_utf8_lossy(&a[0].0).parse::<u64>().unwrap_or(8); damaged_loads(&mut h, *n as u64, v); h.count("damaged_runs", 1); damaged = true; }
            _ => {}
        }
    }
    if !damaged { h.health_violations("C10"); }
    h.finish(sc.seed)
}

pub static DEF: CheckDef = CheckDef {
    id: "C10", level: "exploration", gen, exec,
    nontrivial: |o| o.counters.get("restarts").copied().unwrap_or(0) >= 1 || o.counters.get("damaged_load_refused").copied().unwrap_or(0) + o.counters.get("damaged_load_accepted").copied().unwrap_or(0) >= 1,
    rule: "runs rotate over three kinds. (F) fault runs: a first dataset is usually saved successfully (its dump bytes and dataset are remembered), the dataset is changed, and the next SAVE or BGSAVE meets one injected fault at the n-th open / write / fsync of the temporary file or at the rename (n = 0..14; ENOSPC, EIO, EDQUOT, EACCES, EINTR; short writes of 1..4096 bytes; process crash before the operation or after 0..all of its bytes); oracle: a failed SAVE leaves the dump file byte-identical, after any outcome a fresh server booted from the directory loads exactly the previous or exactly the new dataset (the new one if SAVE answered +OK), and a later SAVE succeeds and round-trips. (S) snapshot runs: the thread of a BGSAVE - or of a save started by the auto-save monitor thread once its rule (1 change / 1 s) is met - is held by the simulator and released a few storage-lock acquisitions / keys at a time (RDB_KEY and SHARD yield points) while a client deletes, replaces, grows, shrinks, re-types and re-expires the 2-8 keys, virtual time passes deadlines and the expiry sweeper gets turns (or SAVE with sweeper pre-emption); the complete dataset is recorded after every step; oracle: the dump loads in a fresh server and every key in it has a (value, deadline) pair that the key held at one recorded instant, and untouched keys are present. (D) damage runs: a valid dump is cut to a prefix, has one byte flipped or overwritten with an opcode-like value, is emptied or extended with garbage, and a fresh server is booted from each of 16-24 variants; oracle: start-up returns an error or a server that answers DBSIZE / KEYS and survives a walk of its data - never a panic, never a single allocation beyond the file size + 64 MiB. Non-trivial = at least one restart or damaged load",
    quick_budget_s: 45.0, thorough_budget_s: 900.0, quick_max_runs: 1_000_000, thorough_max_runs: 100_000_000, exhaustive: false, exhaustive_after: |_| 0,
    real: REAL_WHOLE_SERVER, stub: STUB_WHOLE_SERVER, assumptions: ASSUME_COMMON,
};
