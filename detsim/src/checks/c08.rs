//! C08 — WATCH aborts EXEC whenever a watched key changed, and only then.
use super::multi::Multi;
use super::*;
use crate::harness::*;
use crate::scenario::*;

/// writer templates: (name, applicable key states bitmask: 1 absent, 2 string, 4 list, 8 set, 16 hash, 32 zset)
/// `K` is replaced by the key, `K2` by a second key.
const WRITERS: &[(&str, &[&str])] = &[
    ("SET", &["SET", "K", "new"]), ("SETNX", &["SETNX", "K", "new"]), ("SETEX", &["SETEX", "K", "100", "new"]), ("PSETEX", &["PSETEX", "K", "100000", "new"]), ("GETSET", &["GETSET", "K", "new"]),
    ("APPEND", &["APPEND", "K", "x"]), ("SETRANGE", &["SETRANGE", "K", "1", "zz"]), ("INCR", &["INCR", "K"]), ("DECR", &["DECR", "K"]), ("INCRBY", &["INCRBY", "K", "5"]), ("DECRBY", &["DECRBY", "K", "5"]),
    ("MSET", &["MSET", "K", "new", "other", "1"]), ("DEL", &["DEL", "K"]), ("EXPIRE", &["EXPIRE", "K", "100"]), ("PEXPIRE", &["PEXPIRE", "K", "100000"]), ("PERSIST", &["PERSIST", "K"]), ("EXPIRE0", &["EXPIRE", "K", "0"]),
    ("RENAME-from", &["RENAME", "K", "K2"]), ("RENAME-to", &["RENAME", "K2", "K"]), ("RENAMENX-from", &["RENAMENX", "K", "fresh"]), ("RENAMENX-to", &["RENAMENX", "K2", "K"]),
    ("LPUSH", &["LPUSH", "K", "x"]), ("RPUSH", &["RPUSH", "K", "x"]), ("LPOP", &["LPOP", "K"]), ("RPOP", &["RPOP", "K"]), ("LSET", &["LSET", "K", "0", "x"]), ("LTRIM", &["LTRIM", "K", "0", "0"]), ("LTRIM-all", &["LTRIM", "K", "1", "0"]), ("LREM", &["LREM", "K", "0", "a"]),
    ("SADD", &["SADD", "K", "x"]), ("SADD-existing", &["SADD", "K", "a"]), ("SREM", &["SREM", "K", "a"]), ("SREM-all", &["SREM", "K", "a", "b"]), ("SPOP", &["SPOP", "K"]), ("SPOP-all", &["SPOP", "K", "5"]),
    ("HSET", &["HSET", "K", "f2", "v"]), ("HSET-same", &["HSET", "K", "f", "1"]), ("HMSET", &["HMSET", "K", "f3", "v"]), ("HDEL", &["HDEL", "K", "f"]), ("HDEL-missing", &["HDEL", "K", "nofield"]), ("HINCRBY", &["HINCRBY", "K", "f", "2"]),
    ("ZADD", &["ZADD", "K", "5", "x"]), ("ZADD-rescore", &["ZADD", "K", "9", "a"]), ("ZREM", &["ZREM", "K", "a"]), ("ZREM-all", &["ZREM", "K", "a", "b"]), ("ZINCRBY", &["ZINCRBY", "K", "1", "a"]), ("ZPOPMIN", &["ZPOPMIN", "K"]), ("ZPOPMAX", &["ZPOPMAX", "K", "5"]),
    ("FLUSHDB", &["FLUSHDB"]), ("FLUSHALL", &["FLUSHALL"]),
    ("XADD", &["XADD", "K", "*", "f", "v"]), ("XADD-explicit", &["XADD", "K", "5-5", "f", "v"]), ("XADD-refused", &["XADD", "K", "0-1", "f", "v"]), ("XDEL", &["XDEL", "K", "1-1"]), ("XDEL-missing", &["XDEL", "K", "9-9"]),
    ("XTRIM", &["XTRIM", "K", "MAXLEN", "0"]), ("XTRIM-noop", &["XTRIM", "K", "MAXLEN", "100"]),
    // forms the first catalogue lacked: the key in a later argument position, several elements at once, SET options,
    // increments by zero and edits that leave the value as it was (creating the key when it is absent), a stream
    // created by XGROUP CREATE ... MKSTREAM
    ("SET-NX", &["SET", "K", "new", "NX"]), ("SET-XX", &["SET", "K", "new", "XX"]), ("SET-PX", &["SET", "K", "new", "PX", "100000"]), ("SET-EX-XX", &["SET", "K", "new", "EX", "100", "XX"]),
    ("MSET-second", &["MSET", "other", "1", "K", "new"]), ("DEL-second", &["DEL", "other", "K"]), ("DEL-twice", &["DEL", "K", "K"]),
    ("LPUSH-multi", &["LPUSH", "K", "x", "y", "z"]), ("RPUSH-multi", &["RPUSH", "K", "x", "y"]), ("SADD-multi", &["SADD", "K", "a", "x"]), ("HSET-multi", &["HSET", "K", "f", "1", "g", "2"]), ("ZADD-multi", &["ZADD", "K", "1", "a", "7", "y"]),
    ("INCRBY0", &["INCRBY", "K", "0"]), ("HINCRBY0", &["HINCRBY", "K", "f", "0"]), ("HINCRBY-newfield", &["HINCRBY", "K", "nf", "3"]), ("ZINCRBY0", &["ZINCRBY", "K", "0", "a"]), ("ZINCRBY-new", &["ZINCRBY", "K", "2", "nm"]),
    ("APPEND-empty", &["APPEND", "K", ""]), ("SETRANGE-empty", &["SETRANGE", "K", "0", ""]), ("SETRANGE-pad", &["SETRANGE", "K", "6", "z"]), ("LREM-missing", &["LREM", "K", "0", "zzz"]), ("LREM-neg", &["LREM", "K", "-1", "b"]), ("LSET-last", &["LSET", "K", "-1", "q"]),
    ("LTRIM-keep", &["LTRIM", "K", "0", "-1"]), ("SPOP0", &["SPOP", "K", "0"]), ("ZPOPMIN-all", &["ZPOPMIN", "K", "9"]), ("EXPIRE-neg", &["EXPIRE", "K", "-5"]), ("PERSIST-twice", &["PERSIST", "K"]),
    ("XGROUP-MKSTREAM", &["XGROUP", "CREATE", "K", "g", "$", "MKSTREAM"]),
];
const STATES: &[&str] = &["absent", "string", "list", "set", "hash", "zset", "string+ttl", "list+ttl", "stream"];
const ROUTES: &[&str] = &["other-direct", "self-before-multi", "other-in-exec", "eval", "mirror-same-shard", "mirror-other-db", "unwatch-between", "exec-between", "discard-between", "same-turn"];

fn shard_of(key: &[u8]) -> u64 { let mut h: u64 = 0xcbf29ce484222325; for b in key { h ^= *b as u64; h = h.wrapping_mul(0x100000001b3); } h % 16 }

fn create(state: &str, k: &str) -> Vec<Vec<B>> {
    let mut v = match state.split('+').next().unwrap() {
        "string" => vec![vec![b("SET"), b(k), b("10")]],
        "list" => vec![vec![b("RPUSH"), b(k), b("a"), b("b")]],
        "set" => vec![vec![b("SADD"), b(k), b("a"), b("b")]],
        "hash" => vec![vec![b("HSET"), b(k), b("f"), b("1")]],
        "zset" => vec![vec![b("ZADD"), b(k), b("1"), b("a"), b("2"), b("b")]],
        "stream" => vec![vec![b("XADD"), b(k), b("1-1"), b("f"), b("v")], vec![b("XADD"), b(k), b("2-1"), b("f"), b("v")]],
        _ => vec![],
    };
    if state.ends_with("+ttl") { v.push(vec![b("EXPIRE"), b(k), b("1000")]); }
    v
}

fn subst(t: &[&str], k: &str, k2: &str) -> Vec<B> { t.iter().map(|x| match *x { "K" => b(k), "K2" => b(k2), o => b(o) }).collect() }

/// One WATCH scenario on fresh key names: A = client 0, B = client 1.
fn scenario(sc: &mut Scenario, n: u64, wi: usize, si: usize, ri: usize, r: &mut Rng) {
    let k = format!("k{}", n);
    let k2 = format!("j{}", n);
    let probe = format!("probe{}", n);
    let (_, tmpl) = WRITERS[wi];
    // XGROUP CREATE on a stream that exists adds a group, which Redis does not count as a change of the key: only the
    // creation of the stream (absent key) and the refusals (other types) are judged
    let state = if WRITERS[wi].0 == "XGROUP-MKSTREAM" && STATES[si] == "stream" { "absent" } else { STATES[si] };
    let route = ROUTES[ri];
    let s = |sc: &mut Scenario, c: usize, a: Vec<B>| { sc.steps.push(Step::Send { c, a, split: vec![] }); sc.steps.push(Step::Turns { n: 1 }); };
    sc.steps.push(Step::Ctl { name: "scenario".into(), n: n as i64, a: vec![b(WRITERS[wi].0), b(state), b(route)] });
    for a in create(state, &k) { s(sc, 1, a); }
    // the second key of RENAME-to exists as a string
    if tmpl.contains(&"K2") && tmpl[1] == "K2" { s(sc, 1, vec![b("SET"), b(&k2), b("src")]); }
    s(sc, 0, vec![b("WATCH"), b(&k)]);
    let m = subst(tmpl, &k, &k2);
    match route {
        "other-direct" => s(sc, 1, m),
        "self-before-multi" => s(sc, 0, m),
        "other-in-exec" => { sc.steps.push(Step::Send { c: 1, a: vec![b("MULTI")], split: vec![] }); sc.steps.push(Step::Send { c: 1, a: m, split: vec![] }); sc.steps.push(Step::Send { c: 1, a: vec![b("EXEC")], split: vec![] }); sc.steps.push(Step::Turns { n: 2 }); }
        "eval" => { let mut e = vec![b("EVAL"), b("return redis.call(unpack(ARGV))"), b("0")]; e.extend(m); s(sc, 1, e); }
        "mirror-same-shard" => {
            // the same command on a different key of the same storage shard: must not abort
            let mut other = String::new();
            for i in 0..10_000 { let cand = format!("o{}-{}", n, i); if shard_of(cand.as_bytes()) == shard_of(k.as_bytes()) { other = cand; break; } }
            for a in create(state, &other) { s(sc, 1, a); }
            if tmpl.first() != Some(&"FLUSHDB") && tmpl.first() != Some(&"FLUSHALL") { s(sc, 1, subst(tmpl, &other, &format!("o2-{}", n))); }
        }
        "mirror-other-db" => { s(sc, 1, vec![b("SELECT"), b("3")]); for a in create(state, &k) { s(sc, 1, a); } if tmpl.first() != Some(&"FLUSHALL") { s(sc, 1, m); } s(sc, 1, vec![b("SELECT"), b("0")]); }
        "unwatch-between" => { s(sc, 0, vec![b("UNWATCH")]); s(sc, 1, m); }
        "exec-between" => { s(sc, 0, vec![b("MULTI")]); s(sc, 0, vec![b("EXEC")]); s(sc, 1, m); }
        "discard-between" => { s(sc, 0, vec![b("MULTI")]); s(sc, 0, vec![b("DISCARD")]); s(sc, 1, m); }
        _ => { // same-turn: the writer and the watcher's MULTI..EXEC arrive before the same loop turn; the service order decides
            sc.steps.push(Step::Send { c: 1, a: m, split: vec![] });
        }
    }
    sc.steps.push(Step::Send { c: 0, a: vec![b("MULTI")], split: vec![] });
    sc.steps.push(Step::Send { c: 0, a: vec![b("SET"), b(&probe), b("1")], split: vec![] });
    sc.steps.push(Step::Send { c: 0, a: vec![b("EXEC")], split: vec![] });
    sc.steps.push(Step::Turns { n: 2 });
    let _ = r;
}

pub fn gen(seed: u64, idx: u64, _tier: Tier) -> Scenario {
    let mut r = Rng::new(seed);
    let mut sc = Scenario::new("C08", seed);
    sc.steps.push(Step::Connect { c: 0, inst: 0, buf: 0 });
    sc.steps.push(Step::Connect { c: 1, inst: 0, buf: 0 });
    sc.steps.push(Step::Connect { c: 2, inst: 0, buf: 0 });
    let per = 6u64;
    let total = (WRITERS.len() * STATES.len() * ROUTES.len()) as u64;
    let rounds = (total + per - 1) / per;
    if idx < rounds {
        // systematic walk over the catalogue
        for j in 0..per {
            let x = (idx * per + j) % total;
            let (wi, rest) = ((x / (STATES.len() * ROUTES.len()) as u64) as usize, x % (STATES.len() * ROUTES.len()) as u64);
            scenario(&mut sc, j, wi, (rest / ROUTES.len() as u64) as usize, (rest % ROUTES.len() as u64) as usize, &mut r);
        }
    } else {
        match r.below(3) {
            0 => { // expiry by deadline: lazy (sweeper not yet run) and by the sweeper
                for j in 0..3u64 {
                    let k = format!("e{}", j);
                    let ms = *r.pick(&[50u64, 300, 900]);
                    sc.steps.push(Step::Ctl { name: "scenario".into(), n: j as i64, a: vec![b("EXPIRY"), b("string+px"), b("clock")] });
                    sc.steps.push(Step::Send { c: 1, a: vec![b("SET"), b(&k), b("v"), b("PX"), b(&ms.to_string())], split: vec![] }); sc.steps.push(Step::Turns { n: 1 });
                    sc.steps.push(Step::Send { c: 0, a: vec![b("WATCH"), b(&k)], split: vec![] }); sc.steps.push(Step::Turns { n: 1 });
                    let adv = match r.below(4) { 0 => ms * 1_000_000 - 1_000, 1 => ms * 1_000_000 + 1_000, 2 => ms * 1_000_000 + 2_100_000_000, _ => ms * 500_000 };
                    sc.steps.push(Step::Adv { ns: adv });
                    for a in [vec![b("MULTI")], vec![b("SET"), b(&format!("eprobe{}", j)), b("1")], vec![b("EXEC")]] { sc.steps.push(Step::Send { c: 0, a, split: vec![] }); }
                    sc.steps.push(Step::Turns { n: 2 });
                }
            }
            1 => { // a served blocking pop changes the watched list
                sc.steps.push(Step::Ctl { name: "scenario".into(), n: 0, a: vec![b("SERVED-BLPOP"), b("absent"), b("blocked-client")] });
                sc.steps.push(Step::Send { c: 2, a: vec![b(*r.pick(&["BLPOP", "BRPOP"])), b("bq"), b("0")], split: vec![] }); sc.steps.push(Step::Turns { n: 2 });
                if r.chance(1, 2) { sc.steps.push(Step::Send { c: 1, a: vec![b("RPUSH"), b("bq"), b("a"), b("b")], split: vec![] }); sc.steps.push(Step::Turns { n: 1 }); sc.steps.push(Step::Send { c: 0, a: vec![b("WATCH"), b("bq")], split: vec![] }); sc.steps.push(Step::Turns { n: 3 }); }
                else { sc.steps.push(Step::Send { c: 0, a: vec![b("WATCH"), b("bq")], split: vec![] }); sc.steps.push(Step::Turns { n: 1 }); sc.steps.push(Step::Send { c: 1, a: vec![b("RPUSH"), b("bq"), b("a"), b("b")], split: vec![] }); sc.steps.push(Step::Turns { n: 3 }); }
                for a in [vec![b("MULTI")], vec![b("SET"), b("bprobe"), b("1")], vec![b("EXEC")]] { sc.steps.push(Step::Send { c: 0, a, split: vec![] }); }
                sc.steps.push(Step::Turns { n: 2 });
            }
            _ => { // random multi-step histories with several watchers and keys
                let keys = ["w1", "w2", "w3"];
                for j in 0..r.range(3, 8) as u64 {
                    let c = r.below(3) as usize;
                    let k = *r.pick(&keys);
                    // (all but the last template: a group added to a stream that exists is not judged, see `scenario`)
                    let (_, tmpl) = *r.pick(&WRITERS[..WRITERS.len() - 1]);
                    let a = match r.below(6) { 0 => vec![b("WATCH"), b(k)], 1 => vec![b("UNWATCH")], 2 => subst(tmpl, k, "w9"), 3 => vec![b("MULTI")], 4 => vec![b("EXEC")], _ => subst(tmpl, *r.pick(&keys), "w9") };
                    sc.steps.push(Step::Send { c, a, split: vec![] });
                    if r.chance(2, 3) { sc.steps.push(Step::Turns { n: 1 }); }
                    let _ = j;
                }
                for c in 0..3 { for a in [vec![b("MULTI")], vec![b("SET"), b(&format!("rp{}", c)), b("1")], vec![b("EXEC")]] { sc.steps.push(Step::Send { c, a, split: vec![] }); } sc.steps.push(Step::Turns { n: 1 }); }
                sc.steps.push(Step::Turns { n: 2 });
            }
        }
    }
    sc
}

pub fn exec(sc: &Scenario) -> Outcome {
    let mut h = H::new(sc);
    if let Err(e) = h.boot(&sc.cfg, "a") { return Outcome { verdict: "harness".into(), note: e, ..Default::default() }; }
    let mut m = Multi::new(h, "C08");
    for (i, st) in sc.steps.iter().enumerate() {
        m.h.step_no = i;
        if m.h.dead.is_some() { break; }
        match st {
            Step::Connect { c, .. } => m.connect(*c),
            Step::Send { c, a, .. } => { m.send(*c, &args_of(a)); }
            Step::Turns { n } => m.turns(*n),
            Step::Adv { ns } => { m.h.sim.advance(*ns); }
            Step::Ctl { name, a, .. } if name == "scenario" => { m.h.count("scenarios", 1); m.h.note(format!("--- scenario {}", a.iter().map(|x| esc(&x.0)).collect::<Vec<_>>().join(" / "))); }
            _ => {}
        }
    }
    m.settle(10);
    m.finish(sc.seed)
}

fn rounds() -> u64 { ((WRITERS.len() * STATES.len() * ROUTES.len()) as u64 + 5) / 6 }

pub static DEF: CheckDef = CheckDef {
    id: "C08", level: "exploration", gen, exec,
    nontrivial: |o| o.counters.get("exec_with_watch").copied().unwrap_or(0) >= 1,
    rule: "run indices 0..N walk the complete catalogue of 86 writer templates (every mutating string/list/set/hash/zset/generic command incl. variants that empty the value, hit an existing member, or leave the value unchanged) x 9 states of the watched key (absent, each of five types, two with TTL, stream) x 10 routes (another connection directly; the watching connection itself before MULTI; another connection inside its own EXEC; redis.call from a script; the same command on a different key of the same storage shard (by FNV-1a) and on the same key name in another database, where EXEC must run; UNWATCH / EXEC / DISCARD between, where the watch must be forgotten; writer and EXEC delivered before the same loop turn), 6 scenarios `A: WATCH k; route(M,k); A: MULTI; SET probe; EXEC` per run on fresh key names; later runs: expiry of the watched key by deadline at offsets around it (lazy path and sweeper path), a served blocking pop on the watched list, random multi-watcher histories. Oracle from the sequential model fed in the server's actual execution order: value/TTL/existence of a watched key differs from its snapshot at WATCH => EXEC must be nil and the probe unset; no command named the key in the window => EXEC must run; named but unchanged => either; non-trivial = at least one EXEC with a non-empty watch set judged; exhaustive = true when all catalogue rounds ran",
    quick_budget_s: 45.0, thorough_budget_s: 900.0, quick_max_runs: 1_000_000, thorough_max_runs: 100_000_000, exhaustive: false, exhaustive_after: |_| rounds(),
    real: REAL_WHOLE_SERVER, stub: STUB_WHOLE_SERVER, assumptions: ASSUME_COMMON,
};
