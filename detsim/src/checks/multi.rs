//! Multi-client model-following executor. The server executes commands on one thread, one
//! connection after the other within a loop turn; the simulator knows, from the transport seam,
//! in which order the server read the connections and which request frames each read completed.
//! That yields the exact execution order of all clients' commands, which is fed to the sequential
//! reference model (keyspace + per-connection transaction/watch/blocking state).
#![allow(dead_code)]

use crate::harness::*;
use crate::model::keyspace::*;
use crate::resp::{self, R};
use crate::sim::*;
use crate::world::g;
use std::collections::{BTreeMap, BTreeSet, VecDeque};

pub type Bytes = Vec<u8>;

#[derive(Clone, Debug)]
pub struct Inflight { pub args: Vec<Bytes>, pub end_off: u64, pub tag: u64 }

#[derive(Clone, Debug)]
pub struct WatchEnt { pub db: usize, pub key: Bytes, pub snap: Option<Entry>, pub touched: bool, pub at: u64, pub unreliable: bool }

#[derive(Clone, Debug)]
pub struct Blocked { pub keys: Vec<Bytes>, pub db: usize, pub left: bool, pub deadline: Option<u64>, pub since_turn: u64, pub order: u64, pub args: Vec<Bytes> }

pub struct MClient {
    pub sim: usize,
    pub db: usize,
    pub multi: Option<Vec<Vec<Bytes>>>,
    pub watch: Vec<WatchEnt>,
    pub blocked: Option<Blocked>,
    pub inflight: VecDeque<Inflight>,
    pub gone: bool,
    pub executed: u64,
}

#[derive(Clone, Debug)]
pub struct Done { pub c: usize, pub args: Vec<Bytes>, pub reply: Option<R>, pub tag: u64, pub now: u64, pub blocked: bool, pub db: usize }

pub struct Multi {
    pub h: H,
    pub model: Model,
    pub prop: String,
    pub cl: BTreeMap<usize, MClient>,
    pub turn_no: u64,
    pub block_seq: u64,
    pub tag_seq: u64,
    /// every command the model has executed, in execution order (history for the checks)
    pub history: Vec<Done>,
    /// elements delivered to blocked clients: (client, key, element, turn)
    pub served: Vec<(usize, Bytes, Bytes, u64)>,
    pub compare_dumps: bool,
    pub strict_exec_replies: bool,
    /// accept anything for EVAL replies (C12 judges them)
    pub lenient_eval: bool,
    pub stalled_turns: u32,
    /// a command whose reply has not arrived yet holds back every command the server read after it (runs with transient I/O outcomes)
    pub strict_stall: bool,
    /// the transport's global event number when the current server turn began
    pub turn_start_seq: u64,
    /// clients whose blocking command was answered in the current turn
    pub unblocked_now: BTreeSet<usize>,
    /// a mismatch was found in this turn: the rest of the turn's commands are not judged, the model is re-synchronised at the end of the turn
    pub poisoned: bool,
    pub eval_in_turn: bool,
    /// databases selected by the connections that ran scripts in this turn
    pub eval_dbs: BTreeSet<usize>,
    /// SCRIPT LOAD results: sha -> script text
    pub scripts: BTreeMap<Bytes, Bytes>,
    /// model SELECT queued inside MULTI (it takes effect when EXEC runs it)
    pub select_in_exec: bool,
}

pub fn upper(a: &[u8]) -> String { String::from_utf8_lossy(a).to_uppercase() }

impl Multi {
    pub fn new(h: H, prop: &str) -> Multi {
        Multi { h, model: Model::new(), prop: prop.to_string(), cl: BTreeMap::new(), turn_no: 0, block_seq: 0, tag_seq: 0, history: Vec::new(), served: Vec::new(),
                compare_dumps: true, strict_exec_replies: true, lenient_eval: true, stalled_turns: 0, strict_stall: true, turn_start_seq: 0, unblocked_now: BTreeSet::new(), poisoned: false, eval_in_turn: false, eval_dbs: BTreeSet::new(), scripts: BTreeMap::new(), select_in_exec: false }
    }
    pub fn connect(&mut self, c: usize) {
        let sim = self.h.connect(c, self.h.inst, 0);
        self.cl.insert(c, MClient { sim, db: 0, multi: None, watch: Vec::new(), blocked: None, inflight: VecDeque::new(), gone: false, executed: 0 });
    }
    pub fn send(&mut self, c: usize, args: &[Bytes]) -> u64 {
        self.tag_seq += 1;
        let tag = self.tag_seq;
        let cl = match self.cl.get_mut(&c) { Some(x) if !x.gone => x, _ => return 0 };
        let data = resp::encode_cmd(args);
        let sim = cl.sim;
        self.h.send_bytes(sim, &data, &[]);
        let end = self.h.cs[sim].tx;
        self.cl.get_mut(&c).unwrap().inflight.push_back(Inflight { args: args.to_vec(), end_off: end, tag });
        tag
    }
    /// Arm a transient system-call outcome (EINTR, EAGAIN, short transfer) on the server's side of client `c`'s socket.
    pub fn arm(&mut self, c: usize, fop: crate::world::Op, nth: u64, action: crate::world::Action) {
        if let Some(cl) = self.cl.get(&c) { if !cl.gone { let (inst, s) = (self.h.inst, cl.sim); self.h.sim.arm(inst, fop, Some(s), None, nth, action); self.h.count("syscall_faults_armed", 1); } }
    }
    pub fn close(&mut self, c: usize) {
        // what a client sent before it closes is still executed by a server that gets round to reading it only
        // later (a read that was interrupted or came back empty): let it be read first, so that the model sees it
        for _ in 0..12 {
            if !self.cl.get(&c).map_or(false, |x| !x.gone && !x.inflight.is_empty() && x.blocked.is_none()) { break; }
            if !matches!(self.turn(), TurnOutcome::Turn { .. }) { break; }
        }
        // (a transient failure of the server's look at the socket would legitimately hide the closure for one more turn,
        // in which an element may be handed to the vanished client, as over real TCP: no such outcome is left armed here)
        if let Some(cl) = self.cl.get_mut(&c) { if !cl.gone { cl.gone = true; let s = cl.sim; self.h.sim.disarm_conn(s); self.h.sim.close(s, CloseHow::Close); } }
    }

    /// One server turn, then feed everything the server executed in it to the model, in execution order.
    pub fn turn(&mut self) -> TurnOutcome {
        self.turn_start_seq = g().evseq;
        let o = self.h.turn();
        self.turn_no += 1;
        self.reconcile();
        // a reply that is still on its way through the socket (a long backlog leaves in pieces) is not a missing reply:
        // only turns without any I/O count towards "stalled"
        if let TurnOutcome::Turn { io, .. } = o { if io > 0 && self.stalled_turns > 0 { self.stalled_turns -= 1; } }
        o
    }
    pub fn turns(&mut self, n: u32) { for _ in 0..n { if self.h.dead.is_some() { break; } self.turn(); } }

    /// Run turns until nothing is in flight and two turns in a row were idle.
    pub fn settle(&mut self, max: u32) -> bool {
        let mut idle = 0;
        // `max` bounds the turns without I/O; a long pipeline or reply backlog that is still moving gets the turns it needs
        let (mut quiet, mut total) = (0u32, 0u32);
        while quiet < max && total < 4000 {
            total += 1;
            match self.turn() { TurnOutcome::Turn { io, shard, .. } => { if io == 0 { quiet += 1; } let inflight = self.cl.values().any(|c| !c.gone && !c.inflight.is_empty() && c.blocked.is_none()); if io == 0 && shard == 0 && !inflight { idle += 1; if idle >= 2 { return true; } } else { idle = 0; } } _ => return false }
        }
        false
    }

    /// Feed to the model the requests the server has consumed (all of them, or only those it read before the current turn
    /// began), in the order in which it read them. Returns true if one of them is still waiting for its reply.
    fn run_ready(&mut self, read_before: Option<u64>) -> bool {
        let mut ready: Vec<(u64, u64, usize)> = Vec::new(); // (recv seq, end_off, client)
        let mut late: Vec<usize> = Vec::new();
        for (c, cl) in self.cl.iter() {
            if cl.gone { continue; }
            // what a client sent behind a blocking command that is still waiting is carried out only after that
            // command has been answered (replies go out in request order)
            if cl.blocked.is_some() { continue; }
            let conn = self.h.sim.clients[cl.sim].conn;
            let log = &g().conns[conn];
            if read_before.is_none() && self.unblocked_now.contains(c) && cl.inflight.front().map_or(false, |inf| inf.end_off <= log.consumed) { late.push(*c); }
            for inf in cl.inflight.iter() {
                if inf.end_off <= log.consumed {
                    let rec = log.recvs.iter().find(|r| r.upto >= inf.end_off).copied().unwrap_or_default();
                    if read_before.map_or(true, |s| rec.seq <= s) { ready.push((rec.seq, inf.end_off, *c)); } else { break; }
                }
            }
        }
        ready.sort();
        if read_before.is_none() {
            // requests that waited behind a blocking command run when their connection's turn comes, which the order in which
            // they were read long ago does not tell: if anybody else acted in this turn too, the model is re-read afterwards
            // (requests without effect whose reply does not depend on the dataset - ECHO, PING - can run anywhere)
            let stateless = |m: &Multi, c: &usize| m.cl[c].inflight.iter().all(|i| matches!(upper(&i.args[0]).as_str(), "ECHO" | "PING"));
            if !late.is_empty() && ready.iter().any(|(_, _, c)| !late.contains(c)) && !late.iter().all(|c| stateless(self, c)) { self.poisoned = true; self.h.count("deferred_requests_order_unknown", 1); }
            if !late.is_empty() { self.h.count("deferred_requests_after_unblock", 1); }
            self.unblocked_now.clear();
        }
        let mut stalled = false;
        let mut stalled_clients: BTreeSet<usize> = BTreeSet::new();
        for (_, _, c) in ready {
            if stalled_clients.contains(&c) { continue; }
            if self.cl[&c].blocked.is_some() { continue; } // (it has just blocked: what it sent behind that command waits)
            let inf = self.cl[&c].inflight.front().cloned().unwrap();
            if !self.execute(c, &inf) { stalled = true; stalled_clients.insert(c); /* its reply has not arrived yet: later commands of this client wait */ if self.strict_stall { break; /* ... and so does everything the server ran after it */ } }
        }
        stalled
    }

    fn reconcile(&mut self) {
        self.eval_in_turn = false;
        self.eval_dbs.clear();
        // 0. what the server ran in an earlier turn but whose replies had not all arrived when that turn ended (a long reply
        //    leaves in pieces): before anything that happened in this turn
        let mut stalled = self.run_ready(Some(self.turn_start_seq));
        let mut timeouts: Vec<usize> = Vec::new();
        if !stalled {
            // 1. replies for clients that were blocked before this turn: element deliveries first (the server
            //    processes its wake-up queue at the top of the turn), timeouts after the commands.
            let mut blocked_ids: Vec<usize> = self.cl.iter().filter(|(_, c)| c.blocked.is_some() && !c.gone).map(|(k, _)| *k).collect();
            // the server serves waiters in the order in which they blocked
            blocked_ids.sort_by_key(|c| self.cl[c].blocked.as_ref().map(|b| b.order).unwrap_or(0));
            for c in blocked_ids {
                let sim = self.cl[&c].sim;
                if let Some(rep) = self.h.cs[sim].replies.front().cloned() {
                    match &rep {
                        R::NilArr | R::Nil => { timeouts.push(c); }
                        _ => { self.h.cs[sim].replies.pop_front(); self.deliver_blocked(c, rep); }
                    }
                }
            }
            // requests of clients that went away before their reply could be read: executed by the server, verdict-less here
            let gone_ids: Vec<usize> = self.cl.iter().filter(|(_, c)| c.gone && !c.inflight.is_empty()).map(|(k, _)| *k).collect();
            for c in gone_ids { self.cl.get_mut(&c).unwrap().inflight.clear(); self.poisoned = true; }
            // 2. commands executed in this turn, in the order the server read the connections
            stalled = self.run_ready(None);
        }
        if stalled { self.stalled_turns += 1; } else { self.stalled_turns = 0; }
        // 3. timeouts of blocked clients
        for c in timeouts {
            if self.cl[&c].blocked.is_none() { continue; }
            let sim = self.cl[&c].sim;
            self.h.cs[sim].replies.pop_front();
            self.timeout_blocked(c);
            // what it had sent behind the blocking command has been carried out in this same turn, when its connection's turn
            // came - where among the others' requests is not known: no verdicts, and the model is re-read afterwards
            if !self.cl[&c].inflight.is_empty() {
                if !self.cl[&c].inflight.iter().all(|i| matches!(upper(&i.args[0]).as_str(), "ECHO" | "PING")) { self.poisoned = true; }
                self.unblocked_now.clear();
                loop {
                    let conn = self.h.sim.clients[self.cl[&c].sim].conn;
                    let consumed = g().conns[conn].consumed;
                    let inf = match self.cl[&c].inflight.front() { Some(i) if i.end_off <= consumed => i.clone(), _ => break };
                    if self.cl[&c].blocked.is_some() { break; }
                    if !self.execute(c, &inf) { stalled = true; break; }
                }
            }
        }
        if self.poisoned {
            if !stalled { self.resync(); self.poisoned = false; }
        } else if self.compare_dumps && self.h.dead.is_none() && !stalled { self.compare_dump(); }
    }

    fn deliver_blocked(&mut self, c: usize, rep: R) {
        let b = match self.cl.get_mut(&c).and_then(|x| x.blocked.take()) { Some(b) => b, None => return };
        self.unblocked_now.insert(c);
        let now = self.h.sim.now();
        let (key, elem) = match &rep { R::Arr(v) if v.len() == 2 => match (&v[0], &v[1]) { (R::Bulk(k), R::Bulk(e)) => (k.clone(), e.clone()), _ => (vec![], vec![]) }, _ => (vec![], vec![]) };
        self.h.note(format!("c{} (blocked) served {} <- {}", c, resp::escape(&key), resp::escape(&elem)));
        self.model.purge(b.db, now);
        let ok_key = b.keys.contains(&key);
        let expected_elem = match self.model.dbs[b.db].map.get(&key) { Some(Entry { val: Val::List(l), .. }) => if b.left { l.front().cloned() } else { l.back().cloned() }, _ => None };
        if !ok_key || expected_elem.as_ref() != Some(&elem) {
            self.h.violate(format!("{}/blocking/served-wrong-element", self.prop), format!("client {} blocked on {:?} received {} ; the list {} holds {:?} at that end in the model", c, b.keys.iter().map(|k| resp::escape(k)).collect::<Vec<_>>(), rep.short(), resp::escape(&key), expected_elem.map(|e| resp::escape(&e))));
            self.poisoned = true;
        } else {
            if let Some(Entry { val: Val::List(l), .. }) = self.model.dbs[b.db].map.get_mut(&key) { if b.left { l.pop_front(); } else { l.pop_back(); } }
            let empty = matches!(self.model.dbs[b.db].map.get(&key), Some(Entry { val: Val::List(l), .. }) if l.is_empty());
            if empty { self.model.dbs[b.db].map.remove(&key); }
            self.touch(b.db, &[key.clone()]);
        }
        // FIFO: nobody who blocked on this key earlier (and is still waiting, alive, with its timeout not yet reached) may be passed over
        let earlier: Vec<usize> = self.cl.iter().filter(|(d, cl)| **d != c && !cl.gone && cl.blocked.as_ref().map_or(false, |x| x.db == b.db && x.keys.contains(&key) && x.order < b.order && x.deadline.map_or(true, |dl| dl > now))).map(|(d, _)| *d).collect();
        if !earlier.is_empty() && ok_key {
            self.h.violate(format!("{}/blocking/fifo", self.prop), format!("client {} (blocked as #{}) was served {} from {} while client(s) {:?} blocked on that key earlier and are still waiting", c, b.order, resp::escape(&elem), resp::escape(&key), earlier));
        }
        self.served.push((c, key.clone(), elem.clone(), self.turn_no));
        self.history.push(Done { c, args: b.args.clone(), reply: Some(rep), tag: 0, now, blocked: true, db: b.db });
        self.h.count("blocked_served", 1);
    }
    fn timeout_blocked(&mut self, c: usize) {
        let b = match self.cl.get_mut(&c).and_then(|x| x.blocked.take()) { Some(b) => b, None => return };
        let now = self.h.sim.now();
        self.h.note(format!("c{} (blocked) timed out at {}", c, now));
        match b.deadline {
            None => self.h.violate(format!("{}/blocking/timeout-for-wait-forever", self.prop), format!("client {} asked to wait forever and received nil", c)),
            Some(d) if now < d => self.h.violate(format!("{}/blocking/timeout-early", self.prop), format!("client {} received nil at {} but its deadline is {}", c, now, d)),
            _ => {}
        }
        self.history.push(Done { c, args: b.args.clone(), reply: Some(R::NilArr), tag: 0, now, blocked: true, db: b.db });
        self.h.count("blocked_timed_out", 1);
    }

    /// mark watchers of these keys as touched
    fn touch(&mut self, db: usize, keys: &[Bytes]) {
        for cl in self.cl.values_mut() { for w in cl.watch.iter_mut() { if w.db == db && keys.contains(&w.key) { w.touched = true; } } }
    }
    fn touch_all(&mut self, db: Option<usize>) {
        for cl in self.cl.values_mut() { for w in cl.watch.iter_mut() { if db.map_or(true, |d| d == w.db) { w.touched = true; } } }
    }

    /// Execute the head request of client `c` in the model. Returns false if its reply has not arrived yet.
    fn execute(&mut self, c: usize, inf: &Inflight) -> bool {
        let sim = self.cl[&c].sim;
        let args = inf.args.clone();
        let verb = upper(&args[0]);
        let conn = self.h.sim.clients[sim].conn;
        let now = g().conns[conn].recvs.iter().find(|r| r.upto >= inf.end_off).map(|r| r.mono).unwrap_or_else(|| self.h.sim.now());
        let db = self.cl[&c].db;
        let in_multi = self.cl[&c].multi.is_some();
        // would this command block?
        let is_bpop = (verb == "BLPOP" || verb == "BRPOP") && args.len() >= 3 && !in_multi;
        if is_bpop {
            self.model.purge(db, now);
            let keys: Vec<Bytes> = args[1..args.len() - 1].to_vec();
            let any = keys.iter().any(|k| matches!(self.model.dbs[db].map.get(k), Some(Entry { val: Val::List(l), .. }) if !l.is_empty()));
            let wrong = keys.iter().any(|k| matches!(self.model.dbs[db].map.get(k), Some(e) if !matches!(e.val, Val::List(_))));
            let tmo = std::str::from_utf8(&args[args.len() - 1]).ok().and_then(|s| s.parse::<f64>().ok());
            if !any && !wrong && tmo.map_or(false, |t| t >= 0.0 && t.is_finite()) {
                // blocks: no reply now
                let t = tmo.unwrap();
                self.block_seq += 1;
                let deadline = if t == 0.0 { None } else { Some(now + (t * 1e9) as u64) };
                let cl = self.cl.get_mut(&c).unwrap();
                cl.inflight.pop_front();
                cl.blocked = Some(Blocked { keys, db, left: verb == "BLPOP", deadline, since_turn: self.turn_no, order: self.block_seq, args: args.clone() });
                cl.executed += 1;
                self.h.note(format!("c{} db{} t={} {} -> (blocks)", c, db, now, show_cmd(&args)));
                self.h.count("blocked_registered", 1);
                // an immediate reply here would be a mismatch, detected when it shows up as an unexpected frame
                return true;
            }
        }
        let reply = match self.h.cs[sim].replies.front().cloned() { Some(r) => r, None => return false };
        self.h.cs[sim].replies.pop_front();
        self.cl.get_mut(&c).unwrap().inflight.pop_front();
        self.cl.get_mut(&c).unwrap().executed += 1;
        self.h.count("cmds", 1);
        self.h.note(format!("c{} db{} t={} {} -> {}", c, db, now, show_cmd(&args), reply.short()));
        self.history.push(Done { c, args: args.clone(), reply: Some(reply.clone()), tag: inf.tag, now, blocked: false, db });
        self.judge(c, &args, &verb, db, now, &reply);
        true
    }

    fn mismatch(&mut self, verb: &str, cond: &str, kind: &str, detail: String) {
        if !self.poisoned { self.h.violate(format!("{}/reply/{}/{}/{}", self.prop, verb, cond, kind), detail); }
        self.poisoned = true;
    }

    fn judge(&mut self, c: usize, args: &[Bytes], verb: &str, db: usize, now: u64, reply: &R) {
        let in_multi = self.cl[&c].multi.is_some();
        match verb {
            "MULTI" => {
                if in_multi { if !reply.is_err() { self.mismatch(verb, "nested", &format!("exp=error,got={}", reply.kind()), format!("nested MULTI -> {}", reply.short())); } }
                else if *reply == R::ok() { self.cl.get_mut(&c).unwrap().multi = Some(Vec::new()); }
                else { self.mismatch(verb, "-", &format!("exp=status,got={}", reply.kind()), format!("MULTI -> {}", reply.short())); }
            }
            "DISCARD" => {
                if in_multi { if *reply != R::ok() { self.mismatch(verb, "-", &format!("exp=status,got={}", reply.kind()), reply.short()); } let cl = self.cl.get_mut(&c).unwrap(); cl.multi = None; cl.watch.clear(); }
                else if !reply.is_err() { self.mismatch(verb, "no-multi", &format!("exp=error,got={}", reply.kind()), reply.short()); }
            }
            "WATCH" => {
                if in_multi { if !reply.is_err() { self.mismatch(verb, "in-multi", &format!("exp=error,got={}", reply.kind()), reply.short()); } }
                else if args.len() < 2 { if !reply.is_err() { self.mismatch(verb, "arity", &format!("exp=error,got={}", reply.kind()), reply.short()); } }
                else {
                    if *reply != R::ok() { self.mismatch(verb, "-", &format!("exp=status,got={}", reply.kind()), reply.short()); }
                    self.model.purge(db, now);
                    for k in &args[1..] {
                        let snap = self.model.dbs[db].map.get(k).cloned();
                        // a key watched at the very instant of its deadline (EXPIRE k 0 included) may or may not exist
                        // for the server: no verdict on that watch
                        let unreliable = self.poisoned || snap.as_ref().map_or(false, |e| e.deadline == Some(now));
                        self.cl.get_mut(&c).unwrap().watch.push(WatchEnt { db, key: k.clone(), snap, touched: false, at: now, unreliable });
                    }
                }
            }
            "UNWATCH" => {
                // inside MULTI Redis queues UNWATCH (it then runs, pointlessly, at EXEC); applying it at once is accepted
                // too - the reply tells which of the two happened
                if in_multi && *reply == R::Simple(b"QUEUED".to_vec()) { self.cl.get_mut(&c).unwrap().multi.as_mut().unwrap().push(args.to_vec()); }
                else { if *reply != R::ok() { self.mismatch(verb, "-", &format!("exp=status,got={}", reply.kind()), reply.short()); } self.cl.get_mut(&c).unwrap().watch.clear(); }
            }
            "EXEC" => self.judge_exec(c, db, now, reply),
            "SELECT" if !in_multi => {
                let valid = args.len() == 2 && strict_i64(&args[1]).map_or(false, |v| (0..16).contains(&v));
                if valid { if *reply == R::ok() { self.cl.get_mut(&c).unwrap().db = strict_i64(&args[1]).unwrap() as usize; } else { self.mismatch(verb, "-", &format!("exp=status,got={}", reply.kind()), reply.short()); } }
                else if !reply.is_err() { self.mismatch(verb, "invalid-index", &format!("exp=error,got={}", reply.kind()), format!("`{}` -> {}", show_cmd(args), reply.short())); }
            }
            "SCRIPT" if !in_multi => {
                if args.len() == 3 && upper(&args[1]) == "LOAD" { if let R::Bulk(sha) = reply { self.scripts.insert(sha.clone(), args[2].clone()); } }
            }
            _ if in_multi => {
                // queued (the queue-time checks of Redis - unknown command, arity - are not generated)
                if *reply == R::Simple(b"QUEUED".to_vec()) { self.cl.get_mut(&c).unwrap().multi.as_mut().unwrap().push(args.to_vec()); }
                else { self.mismatch(verb, "in-multi", &format!("exp=queued,got={}", reply.kind()), format!("`{}` inside MULTI -> {}", show_cmd(args), reply.short())); if !reply.is_err() { self.cl.get_mut(&c).unwrap().multi = None; } }
            }
            _ => { self.apply_plain(c, args, verb, db, now, reply, "-"); }
        }
    }

    /// A data command executed now (directly, or as one element of an EXEC batch).
    fn apply_plain(&mut self, c: usize, args: &[Bytes], verb: &str, db: usize, now: u64, reply: &R, path: &str) {
        if self.poisoned { return; }
        let tie = self.model.tie(db, now);
        self.model.purge(db, now);
        // touches: every argument that names a key somebody watches; flushes touch everything
        match verb { "FLUSHDB" => self.touch_all(Some(db)), "FLUSHALL" => self.touch_all(None), _ => { let a: Vec<Bytes> = args[1..].to_vec(); self.touch(db, &a); } }
        if verb == "EVAL" || verb == "EVALSHA" {
            self.eval_in_turn = true;
            self.eval_dbs.insert(db);
            match self.apply_script(db, args, now, reply) { Some(true) => {} Some(false) => { self.h.count("unmodelled", 1); self.poisoned = true; } None => {} }
            return;
        }
        let key = args.get(1).cloned().unwrap_or_default();
        let native = super::seq::native_type(verb);
        let wrongtype = native != "" && !matches!(verb, "SET" | "SETEX" | "PSETEX" | "MSET") && super::seq::key_args(verb, args).iter().any(|a| { let t = self.model.type_of(db, a); t != "none" && t != native });
        let cond = if wrongtype { "wrongtype" } else if path != "-" { path } else { "-" };
        let _ = key;
        match self.model.apply(db, args, now, reply) {
            Ok(true) => {}
            Ok(false) => { self.h.count("unmodelled", 1); self.poisoned = true; }
            Err(m) => {
                if !tie && m.kind != "tie" { self.h.violate(format!("{}/reply/{}/{}/{}", self.prop, verb, cond, m.kind), format!("client {}: `{}` -> {} ; model expects {}", c, show_cmd(args), reply.short(), m.expected)); }
                self.poisoned = true;
            }
        }
    }

    /// Script templates the model understands. Some(true) = modelled, Some(false) = unknown script, None = judged.
    fn apply_script(&mut self, db: usize, args: &[Bytes], now: u64, reply: &R) -> Option<bool> {
        if args.len() < 3 { return Some(false); }
        let script = if upper(&args[0]) == "EVALSHA" { match self.scripts.get(&args[1]) { Some(t) => String::from_utf8_lossy(t).to_string(), None => return Some(reply.is_err()) } } else { String::from_utf8_lossy(&args[1]).to_string() };
        let nk = strict_i64(&args[2]).unwrap_or(-1);
        if nk < 0 || args.len() < 3 + nk as usize { return Some(false); }
        let keys: Vec<Bytes> = args[3..3 + nk as usize].to_vec();
        let argv: Vec<Bytes> = args[3 + nk as usize..].to_vec();
        let cmds: Vec<Vec<Bytes>> = match script.as_str() {
            "return redis.call(unpack(ARGV))" => vec![argv.clone()],
            // transfer: move ARGV[1] from KEYS[1] to KEYS[2]
            "redis.call('DECRBY',KEYS[1],ARGV[1]); redis.call('INCRBY',KEYS[2],ARGV[1]); return 1" if keys.len() == 2 && argv.len() == 1 => vec![vec![b"DECRBY".to_vec(), keys[0].clone(), argv[0].clone()], vec![b"INCRBY".to_vec(), keys[1].clone(), argv[0].clone()]],
            "redis.call('SET',KEYS[1],ARGV[1]); redis.call('RPUSH',KEYS[2],ARGV[1]); return redis.call('GET',KEYS[1])" if keys.len() == 2 && argv.len() == 1 => vec![vec![b"SET".to_vec(), keys[0].clone(), argv[0].clone()], vec![b"RPUSH".to_vec(), keys[1].clone(), argv[0].clone()]],
            "return {redis.call('GET',KEYS[1]), redis.call('GET',KEYS[2])}" if keys.len() == 2 => vec![],
            _ => return Some(false),
        };
        if reply.is_err() && cmds.len() == 1 { // single wrapped command refused: no effect expected (checked by the dump oracle)
            if let Some(exp) = self.model.expect(db, &upper(&cmds[0][0]), &cmds[0], now) { if !matches!(exp, Exp::Err) && !matches(&exp, &R::Err(vec![])) { /* error where the model expects a value: judged by C12 */ } }
            return Some(true);
        }
        for cmd in &cmds {
            if cmd.is_empty() { continue; }
            let name = upper(&cmd[0]);
            // effects follow the model; replies of scripts are judged by C12, so the model's own expectation is used as "actual"
            match self.model.expect(db, &name, cmd, now) {
                Some(Exp::Is(r)) => { self.model.transition(db, &name, cmd, now, &r); }
                Some(Exp::Float(f)) => { self.model.transition(db, &name, cmd, now, &R::Bulk(format!("{}", f).into_bytes())); }
                Some(Exp::Err) => { /* redis.call raises: the script stops here, earlier effects persist */ break; }
                Some(_) => { return Some(false); }
                None => return Some(false),
            }
        }
        let _ = reply;
        Some(true)
    }

    fn judge_exec(&mut self, c: usize, db: usize, now: u64, reply: &R) {
        let queue = match self.cl.get_mut(&c).unwrap().multi.take() { Some(q) => q, None => { if !reply.is_err() { self.mismatch("EXEC", "no-multi", &format!("exp=error,got={}", reply.kind()), format!("EXEC without MULTI -> {}", reply.short())); } return; } };
        // WATCH verdict
        self.model.purge_all(now);
        let watch = std::mem::take(&mut self.cl.get_mut(&c).unwrap().watch);
        let mut changed: Vec<String> = Vec::new();
        let mut touched: Vec<String> = Vec::new();
        let mut tie_at_exec = false;
        for w in &watch {
            let cur = self.model.dbs[w.db].map.get(&w.key).cloned();
            if cur.as_ref().map_or(false, |e| e.deadline == Some(now)) { tie_at_exec = true; }
            let same = match (&cur, &w.snap) { (None, None) => true, (Some(a), Some(b)) => a.val == b.val && a.deadline == b.deadline, _ => false };
            if !same { changed.push(resp::escape(&w.key)); }
            if w.touched { touched.push(resp::escape(&w.key)); }
        }
        let aborted = matches!(reply, R::NilArr | R::Nil);
        if !watch.is_empty() { self.h.count("exec_with_watch", 1); }
        if self.poisoned || tie_at_exec || watch.iter().any(|w| w.unreliable) {
            // the model lost track of the dataset somewhere in this window: no verdict on the watch outcome
            if aborted { return; }
            changed.clear();
        }
        if !changed.is_empty() {
            self.h.count("probe_exec_after_watched_key_changed", 1);
            if !aborted {
                let how = self.last_toucher(&watch);
                self.h.violate(format!("{}/watch/missed-abort/{}", self.prop, how), format!("client {}: watched key(s) {:?} changed between WATCH and EXEC (by {}), but EXEC ran: {}", c, changed, how, reply.short()));
                // the implementation executed the queue: follow it
            } else { return; }
        } else if aborted {
            if touched.is_empty() {
                self.h.violate(format!("{}/watch/false-abort", self.prop), format!("client {}: EXEC returned nil although none of the watched keys {:?} was named by any command since WATCH", c, watch.iter().map(|w| resp::escape(&w.key)).collect::<Vec<_>>()));
            } else { self.h.count("exec_abort_on_touched_unchanged", 1); }
            return;
        }
        // executed: one reply per queued command, each judged as if run back to back
        let items = match reply { R::Arr(v) => v.clone(), other => { self.mismatch("EXEC", "-", &format!("exp=arr,got={}", other.kind()), format!("EXEC of {} queued commands -> {}", queue.len(), other.short())); return; } };
        if items.len() != queue.len() {
            self.mismatch("EXEC", "-", "reply-count", format!("EXEC of {} queued commands returned {} replies: {}", queue.len(), items.len(), reply.short()));
            return;
        }
        self.h.count("exec_batches", 1);
        self.h.count("exec_commands", queue.len() as u64);
        let mut db = db;
        for (q, r) in queue.iter().zip(items.iter()) {
            let verb = upper(&q[0]);
            if verb == "SELECT" && self.select_in_exec {
                // a queued SELECT takes effect when it runs: the rest of the batch and the connection use the new database
                let valid = q.len() == 2 && strict_i64(&q[1]).map_or(false, |v| (0..16).contains(&v));
                if valid { if *r == R::ok() { db = strict_i64(&q[1]).unwrap() as usize; self.cl.get_mut(&c).unwrap().db = db; } else { self.mismatch("SELECT", "in-exec", &format!("exp=status,got={}", r.kind()), format!("client {}: `{}` inside EXEC -> {}", c, show_cmd(q), r.short())); } }
                else if !r.is_err() { self.mismatch("SELECT", "in-exec", &format!("exp=error,got={}", r.kind()), format!("client {}: `{}` inside EXEC -> {}", c, show_cmd(q), r.short())); }
                continue;
            }
            if verb == "SELECT" || verb == "UNWATCH" { continue; } // outside the modelled catalogue / no effect at this point
            self.apply_plain(c, q, &verb, db, now, r, "in-exec");
        }
    }

    /// who last touched a watched key (class component for missed aborts)
    fn last_toucher(&self, watch: &[WatchEnt]) -> String {
        let keys: Vec<&Bytes> = watch.iter().map(|w| &w.key).collect();
        for d in self.history.iter().rev() {
            if d.args.iter().skip(1).any(|a| keys.contains(&a)) || matches!(upper(&d.args[0]).as_str(), "FLUSHDB" | "FLUSHALL") {
                let v = upper(&d.args[0]);
                if v == "WATCH" { break; }
                return if v == "EVAL" && d.args.len() > 3 { format!("EVAL:{}", upper(&d.args[3])) } else if d.blocked { format!("served-{}", v) } else { v };
            }
        }
        "expiry".into()
    }

    pub fn resync(&mut self) {
        let now = self.h.sim.now();
        let storage = self.h.sim.instances[self.h.inst].storage.clone();
        for db in 0..16 { self.model.dbs[db] = super::seq::from_dump(&storage.verif_dump(db), now); }
        for cl in self.cl.values_mut() { for w in cl.watch.iter_mut() { w.unreliable = true; } }
        self.h.count("resyncs", 1);
    }

    pub fn compare_dump(&mut self) {
        let now = self.h.sim.now();
        let storage = self.h.sim.instances[self.h.inst].storage.clone();
        self.model.purge_all(now);
        let mut bads: Vec<(usize, String)> = Vec::new();
        let mut tie_any = false;
        for db in 0..16 {
            let dump = storage.verif_dump(db);
            let from = super::seq::from_dump(&dump, now);
            let md = &self.model.dbs[db];
            let mut bad: Option<String> = None;
            let mut tie_differs = false;
            for (k, e) in from.map.iter() {
                if e.deadline.map_or(false, |d| d <= now) { continue; }
                match md.map.get(k) {
                    None => { bad = Some(format!("db{} key {} stored ({}), absent in the model", db, resp::escape(k), e.val.type_name())); break; }
                    Some(m) if m.deadline == Some(now) => { if m.val != e.val || m.deadline != e.deadline { tie_differs = true; } }
                    Some(m) => { if m.val != e.val { bad = Some(format!("db{} key {}: stored {:?}, model {:?}", db, resp::escape(k), short_val(&e.val), short_val(&m.val))); break; }
                                 if m.deadline != e.deadline && m.deadline != Some(now) { bad = Some(format!("db{} key {}: stored deadline {:?}, model {:?}", db, resp::escape(k), e.deadline, m.deadline)); break; } }
                }
            }
            if bad.is_none() { for (k, m) in md.map.iter() { if m.deadline.map_or(true, |d| now < d) && !from.map.contains_key(k) { bad = Some(format!("db{} key {} ({}) absent from storage", db, resp::escape(k), m.val.type_name())); break; } } }
            if bad.is_none() && tie_differs { tie_any = true; }
            if let Some(d) = bad { bads.push((db, d)); }
        }
        if bads.is_empty() {
            if tie_any { self.h.count("deadline_tie_dont_care", 1); self.resync(); }
            return;
        }
        // what redis.call does compared with the direct command is C12's subject - but only inside the
        // database the script's connection has selected
        let lenient: Vec<&(usize, String)> = bads.iter().filter(|(db, _)| self.eval_in_turn && self.lenient_eval && self.eval_dbs.contains(db)).collect();
        let strict: Vec<&(usize, String)> = bads.iter().filter(|(db, _)| !(self.eval_in_turn && self.lenient_eval && self.eval_dbs.contains(db))).collect();
        if !lenient.is_empty() { self.h.count("eval_effect_differs_from_direct_command", 1); }
        if let Some((_, d)) = strict.first() {
            let last = self.history.last().map(|d| upper(&d.args[0])).unwrap_or_default();
            self.h.violate(format!("{}/dump/after-{}", self.prop, last), format!("stored dataset differs from the model after turn {}: {}", self.turn_no, d));
        }
        self.resync();
    }

    pub fn finish(mut self, seed: u64) -> Outcome {
        let p = self.prop.clone();
        self.h.health_violations(&p);
        let sh = self.model.state_hash();
        self.h.state_hashes.push(sh);
        self.h.finish(seed)
    }
}

fn short_val(v: &Val) -> String { let s = format!("{:?}", v); if s.len() > 120 { format!("{}...", &s[..120]) } else { s } }
