//! C02 — expiration is exact: never early, never observable late, never spurious.
use super::seq::Seq;
use super::*;
use crate::harness::*;
use crate::scenario::*;

#[derive(Clone, Copy, PartialEq, Debug)]
enum Ty { None, Str, List, Set, Hash, ZSet, Stream }

struct G { ty: Ty, deadline: Option<u64> }

fn key(i: usize) -> B { b(&format!("k{}", i)) }

/// Generator-side approximation of what a key holds (only used to pick meaningful commands).
fn create(r: &mut Rng, k: usize, ty: Ty, sc: &mut Scenario) {
    let a = match ty {
        Ty::Str => vec![b("SET"), key(k), b(&format!("v{}", r.below(100)))],
        Ty::List => vec![b("RPUSH"), key(k), b("a"), b("b"), b("c")],
        Ty::Set => vec![b("SADD"), key(k), b("a"), b("b"), b("c")],
        Ty::Hash => vec![b("HSET"), key(k), b("f1"), b("1"), b("f2"), b("x")],
        Ty::ZSet => vec![b("ZADD"), key(k), b("1"), b("a"), b("2"), b("b")],
        Ty::Stream => vec![b("XADD"), key(k), b("1-1"), b("f"), b("v")],
        Ty::None => return,
    };
    sc.steps.push(Step::Cmd { c: 0, a, split: vec![] });
}

fn modifier(r: &mut Rng, k: usize, ty: Ty) -> Vec<B> {
    match ty {
        Ty::Str | Ty::None => match r.below(4) { 0 => vec![b("APPEND"), key(k), b("x")], 1 => vec![b("INCR"), key(k)], 2 => vec![b("SETRANGE"), key(k), b("1"), b("zz")], _ => vec![b("INCRBY"), key(k), b("5")] },
        Ty::List => match r.below(5) { 0 => vec![b("LPUSH"), key(k), b("n")], 1 => vec![b("RPOP"), key(k)], 2 => vec![b("LSET"), key(k), b("0"), b("m")], 3 => vec![b("LTRIM"), key(k), b("0"), b("1")], _ => vec![b("LPOP"), key(k)] },
        Ty::Set => match r.below(3) { 0 => vec![b("SADD"), key(k), b(&format!("m{}", r.below(5)))], 1 => vec![b("SREM"), key(k), b(*r.pick(&["a", "b", "c"]))], _ => vec![b("SPOP"), key(k)] },
        Ty::Hash => match r.below(3) { 0 => vec![b("HSET"), key(k), b("f3"), b("y")], 1 => vec![b("HDEL"), key(k), b(*r.pick(&["f1", "f2", "f3"]))], _ => vec![b("HINCRBY"), key(k), b("f1"), b("2")] },
        Ty::ZSet => match r.below(4) { 0 => vec![b("ZADD"), key(k), b("3"), b("c")], 1 => vec![b("ZREM"), key(k), b(*r.pick(&["a", "b", "c"]))], 2 => vec![b("ZINCRBY"), key(k), b("1.5"), b("a")], _ => vec![b("ZPOPMIN"), key(k)] },
        // (explicit ids: an automatic id would make the reply depend on the wall clock, which is C15's subject)
        Ty::Stream => match r.below(3) { 0 => vec![b("XADD"), key(k), b(&format!("{}-1", 2 + r.below(50))), b("f"), b("w")], 1 => vec![b("XDEL"), key(k), b("1-1")], _ => vec![b("XTRIM"), key(k), b("MAXLEN"), b("1")] },
    }
}

fn reader(r: &mut Rng, k: usize, ty: Ty) -> Vec<B> {
    match r.below(12) {
        0 => vec![b("EXISTS"), key(k)],
        1 => vec![b("TYPE"), key(k)],
        2 => vec![b("TTL"), key(k)],
        3 => vec![b("PTTL"), key(k)],
        4 => vec![b("DBSIZE")],
        5 => vec![b("KEYS"), b("*")],
        6 => vec![b("RANDOMKEY")],
        7 => vec![b("EXISTS"), key(k), key((k + 1) % 5)],
        _ => match ty {
            Ty::Str | Ty::None => match r.below(3) { 0 => vec![b("GET"), key(k)], 1 => vec![b("STRLEN"), key(k)], _ => vec![b("GETRANGE"), key(k), b("0"), b("-1")] },
            Ty::List => match r.below(3) { 0 => vec![b("LLEN"), key(k)], 1 => vec![b("LRANGE"), key(k), b("0"), b("-1")], _ => vec![b("LINDEX"), key(k), b("0")] },
            Ty::Set => match r.below(3) { 0 => vec![b("SCARD"), key(k)], 1 => vec![b("SMEMBERS"), key(k)], _ => vec![b("SISMEMBER"), key(k), b("a")] },
            Ty::Hash => match r.below(3) { 0 => vec![b("HLEN"), key(k)], 1 => vec![b("HGETALL"), key(k)], _ => vec![b("HGET"), key(k), b("f1")] },
            Ty::ZSet => match r.below(3) { 0 => vec![b("ZCARD"), key(k)], 1 => vec![b("ZRANGE"), key(k), b("0"), b("-1"), b("WITHSCORES")], _ => vec![b("ZSCORE"), key(k), b("a")] },
            Ty::Stream => match r.below(3) { 0 => vec![b("XLEN"), key(k)], 1 => vec![b("XRANGE"), key(k), b("-"), b("+")], _ => vec![b("XREAD"), b("STREAMS"), key(k), b("0-0")] },
        },
    }
}

pub fn gen(seed: u64, _idx: u64, tier: Tier) -> Scenario {
    let mut r = Rng::new(seed);
    let mut sc = Scenario::new("C02", seed);
    // sweeper policy: 0 eager (runs whenever due), 1 starved (lazy path only), 2 held between collect and delete
    let policy = r.weighted(&[4, 2, 4]) as i64;
    sc.knobs.insert("sweeper".into(), policy);
    sc.knobs.insert("preempt".into(), *r.pick(&[0, 0, 20, 200]));
    sc.steps.push(Step::Connect { c: 0, inst: 0, buf: 0 });
    if policy != 0 { sc.steps.push(Step::Ctl { name: "sweeper_manual".into(), n: 0, a: vec![] }); }
    let nk = 5usize;
    let mut g: Vec<G> = (0..nk).map(|_| G { ty: Ty::None, deadline: None }).collect();
    let mut t: u64 = 0; // virtual ns since start (commands execute at the instant of the last advance)
    let types = [Ty::Str, Ty::List, Ty::Set, Ty::Hash, Ty::ZSet, Ty::Stream];
    let n = match tier { Tier::Quick => r.range(20, 110), Tier::Thorough => r.range(20, 160) };
    for _ in 0..n {
        let k = r.below(nk as u64) as usize;
        // logical expiry in the generator's own bookkeeping
        for e in g.iter_mut() { if e.deadline.map_or(false, |d| d <= t) { e.ty = Ty::None; e.deadline = None; } }
        match r.weighted(&[10, 8, 5, 4, 5, 8, 14, 6, 14, 3, 3, 6]) {
            0 => { // string with TTL in one command
                let ms = *r.pick(&[1u64, 5, 50, 300, 1000, 1500, 2500, 4000]);
                let a = match r.below(4) {
                    0 => vec![b("SET"), key(k), b("v"), b("PX"), b(&ms.to_string())],
                    1 => vec![b("PSETEX"), key(k), b(&ms.to_string()), b("v")],
                    2 => { let s = (ms / 1000).max(1); vec![b("SETEX"), key(k), b(&s.to_string()), b("v")] }
                    _ => { let s = (ms / 1000).max(1); vec![b("SET"), key(k), b("7"), b("EX"), b(&s.to_string())] }
                };
                let real_ms = if a[0].0 == b"SETEX" || (a.len() == 5 && a[3].0 == b"EX") { (ms / 1000).max(1) * 1000 } else { ms };
                sc.steps.push(Step::Cmd { c: 0, a, split: vec![] });
                g[k] = G { ty: Ty::Str, deadline: Some(t + real_ms * 1_000_000) };
            }
            1 => { // collection (or string) + EXPIRE/PEXPIRE
                if g[k].ty == Ty::None { let ty = *r.pick(&types); create(&mut r, k, ty, &mut sc); g[k].ty = ty; g[k].deadline = None; }
                let ms = *r.pick(&[1u64, 20, 400, 1000, 1200, 2000, 3500]);
                let a = if r.chance(1, 3) { let s = (ms / 1000).max(1); g[k].deadline = Some(t + s * 1_000_000_000); vec![b("EXPIRE"), key(k), b(&s.to_string())] }
                        else { g[k].deadline = Some(t + ms * 1_000_000); vec![b("PEXPIRE"), key(k), b(&ms.to_string())] };
                sc.steps.push(Step::Cmd { c: 0, a, split: vec![] });
            }
            2 => { // TTL clearers
                let a = match r.below(4) {
                    0 => vec![b("PERSIST"), key(k)],
                    1 => { g[k].ty = Ty::Str; vec![b("SET"), key(k), b("plain")] }
                    2 => { if g[k].ty == Ty::Str || g[k].ty == Ty::None { g[k].ty = Ty::Str; vec![b("GETSET"), key(k), b("gs")] } else { vec![b("PERSIST"), key(k)] } }
                    _ => { g[k].ty = Ty::Str; vec![b("MSET"), key(k), b("ms")] }
                };
                g[k].deadline = None;
                sc.steps.push(Step::Cmd { c: 0, a, split: vec![] });
            }
            3 => { // extend / shorten / zero / negative
                let a = match r.below(4) {
                    0 => { g[k].deadline = g[k].deadline.map(|_| t + 100_000_000_000); vec![b("EXPIRE"), key(k), b("100")] }
                    1 => { g[k].deadline = g[k].deadline.map(|_| t + 10_000_000); vec![b("PEXPIRE"), key(k), b("10")] }
                    2 => { g[k] = G { ty: Ty::None, deadline: None }; vec![b("EXPIRE"), key(k), b("0")] }
                    _ => { g[k] = G { ty: Ty::None, deadline: None }; vec![b("PEXPIRE"), key(k), b("0")] }
                };
                sc.steps.push(Step::Cmd { c: 0, a, split: vec![] });
            }
            4 => { // rename: the TTL travels with the value, the target's own TTL is gone
                let k2 = r.below(nk as u64) as usize;
                let a = if r.chance(3, 4) { vec![b("RENAME"), key(k), key(k2)] } else { vec![b("RENAMENX"), key(k), key(k2)] };
                if g[k].ty != Ty::None && k != k2 && (a[0].0 == b"RENAME" || g[k2].ty == Ty::None) { g[k2] = G { ty: g[k].ty, deadline: g[k].deadline }; g[k] = G { ty: Ty::None, deadline: None }; }
                sc.steps.push(Step::Cmd { c: 0, a, split: vec![] });
            }
            5 => { // in-place modification (TTL must survive) or create-on-expired
                let a = modifier(&mut r, k, g[k].ty);
                sc.steps.push(Step::Cmd { c: 0, a, split: vec![] });
            }
            6 => { let a = reader(&mut r, k, g[k].ty); sc.steps.push(Step::Cmd { c: 0, a, split: vec![] }); }
            7 => { // conditional writers
                let a = match r.below(5) { 0 => vec![b("SET"), key(k), b("nx"), b("NX")], 1 => vec![b("SET"), key(k), b("xx"), b("XX")], 2 => vec![b("SETNX"), key(k), b("snx")],
                    3 => vec![b("SET"), key(k), b("nxpx"), b("NX"), b("PX"), b("700")], _ => vec![b("DEL"), key(k)] };
                sc.steps.push(Step::Cmd { c: 0, a, split: vec![] });
            }
            8 => { // move the clock relative to a deadline
                let live: Vec<u64> = g.iter().filter_map(|e| e.deadline).filter(|d| *d > t).collect();
                let delta = *r.pick(&[1u64, 1_000, 1_000_000, 1_000_000_000]);
                let target = if !live.is_empty() && r.chance(3, 4) {
                    let d = *r.pick(&live);
                    match r.below(3) { 0 => d.saturating_sub(delta).max(t), 1 => d, _ => d + delta }
                } else { t + *r.pick(&[1_000_000u64, 30_000_000, 500_000_000, 1_000_000_000, 2_100_000_000]) };
                if target > t { sc.steps.push(Step::Adv { ns: target - t }); t = target; }
                // the wall clock may jump (NTP step, manual change): deadlines are monotonic-clock instants and must not move
                if r.chance(1, 12) { sc.steps.push(Step::RealStep { ns: *r.pick(&[-3_600_000_000_000i64, -1_500_000_000, 1_500_000_000, 3_600_000_000_000, 86_400_000_000_000]) }); }
            }
            9 => { if policy == 2 { sc.steps.push(Step::Ctl { name: "sweep_hold".into(), n: 0, a: vec![] }); } }
            10 => { if policy == 2 { sc.steps.push(Step::Ctl { name: "sweep_release".into(), n: 0, a: vec![] }); } }
            _ => { // emptying and re-creating under the same name
                let a = match g[k].ty { Ty::List => vec![b("LTRIM"), key(k), b("1"), b("0")], Ty::Set => vec![b("SREM"), key(k), b("a"), b("b"), b("c")], Ty::Hash => vec![b("HDEL"), key(k), b("f1"), b("f2"), b("f3")], Ty::ZSet => vec![b("ZREM"), key(k), b("a"), b("b"), b("c")], _ => vec![b("DEL"), key(k)] };
                sc.steps.push(Step::Cmd { c: 0, a, split: vec![] });
                if r.chance(1, 2) { let ty = *r.pick(&types); create(&mut r, k, ty, &mut sc); g[k] = G { ty, deadline: None }; }
            }
        }
    }
    // finally: let at least two sweeper passes complete and compare the stored dataset once more
    if policy == 2 { sc.steps.push(Step::Ctl { name: "sweep_release".into(), n: 0, a: vec![] }); sc.steps.push(Step::Ctl { name: "sweeper_eager".into(), n: 0, a: vec![] }); }
    if policy != 1 { sc.steps.push(Step::Adv { ns: 1_050_000_000 }); sc.steps.push(Step::Adv { ns: 1_050_000_000 }); }
    sc.steps.push(Step::Cmd { c: 0, a: vec![b("DBSIZE")], split: vec![] });
    sc
}

pub fn exec(sc: &Scenario) -> Outcome {
    let mut s = match Seq::new(sc, "C02") { Ok(s) => s, Err(o) => return o };
    for (i, st) in sc.steps.iter().enumerate() {
        s.h.step_no = i;
        if s.h.dead.is_some() { break; }
        s.run_step(st);
    }
    s.finish(sc.seed)
}

pub static DEF: CheckDef = CheckDef {
    id: "C02", level: "exploration", gen, exec,
    nontrivial: |o| o.counters.get("cmds").copied().unwrap_or(0) >= 20 && o.sim_ns > 0,
    rule: "one run = one seeded history over 5 keys of all value types mixing TTL setters (SET EX/PX, SETEX, PSETEX, EXPIRE, PEXPIRE incl. zero/negative), TTL clearers (PERSIST, SET, GETSET, MSET), RENAME/RENAMENX, in-place modifiers, emptying+re-creating, conditional writers and readers of every family, with the virtual clock moved to deadline-d, deadline, deadline+d (d = 1ns..1s) and the sweeper thread scheduled by the simulator under one of three policies (runs whenever due / starved: lazy path only / parked between its collect and delete phases while client commands run); every reply is compared with the model at the exact virtual execution time, and the stored dataset incl. stored deadlines is compared after every command, clock move and sweeper release; non-trivial = at least 20 commands and the clock moved; distinct = distinct event-log hash; the realtime clock is additionally stepped by -1 h .. +1 day at random points (deadlines are monotonic-clock instants and must not move)",
    quick_budget_s: 45.0, thorough_budget_s: 900.0, quick_max_runs: 1_000_000, thorough_max_runs: 100_000_000, exhaustive: false, exhaustive_after: |_| 0,
    real: REAL_WHOLE_SERVER, stub: STUB_WHOLE_SERVER, assumptions: ASSUME_COMMON,
};
