//! C09 — an RDB snapshot restores exactly the dataset that was saved.
use super::*;
use crate::harness::*;
use crate::resp::R;
use crate::scenario::*;
use ferrous::verif::{DumpEntry, DumpValue};
use std::collections::BTreeMap;

pub const SIZES: &[u64] = &[0, 1, 2, 62, 63, 64, 65, 255, 256, 16382, 16383, 16384, 16385, 65535, 65536, 65537, 70000];
const MARKER_KEYS: &[&[u8]] = &[b"", b"\xff", b"\xfe", b"\xfd", b"\xfc", b"\xfb", b"\xfa", b"REDIS0009", b"\x00", b"\xff\x00\xfe\x01", b"\r\n", b"key with spaces", b"\xc0\x01", b"\xc3\x05abc", b"12345", b"-1"];
const INT_LIKE: &[&str] = &["0", "1", "-1", "127", "128", "-129", "32767", "32768", "2147483647", "2147483648", "-2147483649", "9223372036854775807", "-9223372036854775808", "007", "1.5", " 1", "12345678901234567890"];
pub const SCORES: &[&str] = &["0", "-0", "1", "-1", "1.5", "inf", "-inf", "1e300", "-1e300", "5e-324", "9007199254740993", "0.1", "3.141592653589793", "1e-10", "123456789.123456789", "-2.2250738585072014e-308"];

fn pick_size(r: &mut Rng, big_ok: bool) -> u64 {
    loop { let s = if r.chance(1, 2) { *r.pick(&SIZES[..9]) } else { *r.pick(SIZES) }; if s > 300 && !big_ok { continue; } return s; }
}

pub fn gen(seed: u64, _idx: u64, tier: Tier) -> Scenario {
    let mut r = Rng::new(seed);
    let mut sc = Scenario::new("C09", seed);
    sc.steps.push(Step::Connect { c: 0, inst: 0, buf: 0 });
    // a slow disk: every completed write to the dump file takes this much (virtual) time, so the clock moves while
    // the snapshot is being written
    sc.knobs.insert("disk_write_latency_us".into(), *r.pick(&[0i64, 0, 0, 200, 5_000, 80_000]));
    // at most a few large values per run keep runs short; large ones appear in about every third run
    let mut big_budget = if r.chance(1, 3) { r.range(1, 2) } else { 0 };
    let ndb = r.range(1, 4);
    let nkeys = match tier { Tier::Quick => r.range(1, 14), Tier::Thorough => r.range(1, 40) };
    let mut cur_db = 0i64;
    for i in 0..nkeys {
        if r.chance(1, 3) || i == 0 { let d = if r.chance(1, 2) { r.range(0, ndb) } else { *r.pick(&[0i64, 1, 9, 15]) }; if d != cur_db { cur_db = d; sc.steps.push(Step::Cmd { c: 0, a: vec![b("SELECT"), b(&format!("{}", d))], split: vec![] }); } }
        let key: B = if r.chance(1, 4) { B(r.pick(MARKER_KEYS).to_vec()) } else if r.chance(1, 12) { B(vec![b'k'; *r.pick(&[63usize, 64, 16383, 16384]) ]) } else { b(&format!("key:{}", i)) };
        let big = big_budget > 0 && r.chance(1, 2);
        let size = pick_size(&mut r, big);
        if size > 300 { big_budget -= 1; }
        let typ = *r.pick(&["string", "string", "list", "set", "hash", "zset", "stream"]);
        // element flavour: 0 short text, 1 binary, 2 integer-like, 3 internal-marker bytes, 4 long (around a length-encoding boundary)
        let flavour = r.below(5) as i64;
        sc.steps.push(Step::Ctl { name: "fill".into(), n: (r.next() >> 1) as i64, a: vec![b(typ), key.clone(), b(&format!("{}", size)), b(&format!("{}", flavour))] });
        if typ == "stream" && r.chance(1, 4) { sc.steps.push(Step::Ctl { name: "empty_stream".into(), n: 0, a: vec![key.clone()] }); }
        if r.chance(2, 5) {
            let (cmd, v) = match r.below(4) { 0 => ("PEXPIRE", *r.pick(&["1", "50", "999", "1000", "1001", "60000", "86400000", "4102444800000", "9223372036854775807", "18446744073709551615"])), 1 => ("EXPIRE", *r.pick(&["1", "2", "60", "100000", "2147483647", "9223372036854775"])), 2 => ("PEXPIRE", *r.pick(&["1500", "2500", "10000"])), _ => ("EXPIRE", *r.pick(&["5", "3600"])) };
            sc.steps.push(Step::Cmd { c: 0, a: vec![b(cmd), key.clone(), b(v)], split: vec![] });
        }
        if r.chance(1, 6) { sc.steps.push(Step::Adv { ns: *r.pick(&[1_000_000u64, 300_000_000, 1_000_000_000]) }); }
    }
    // downtime: none, shorter than the short TTLs, between, longer
    let down = *r.pick(&[0u64, 1_000_000, 400_000_000, 1_200_000_000, 2_000_000_000, 30_000_000_000, 100_000_000_000_000]);
    sc.steps.push(Step::Ctl { name: "save_restart".into(), n: down as i64, a: vec![] });
    if r.chance(1, 3) { // a second generation: change something, save again, restart again
        sc.steps.push(Step::Ctl { name: "fill".into(), n: (r.next() >> 1) as i64, a: vec![b(*r.pick(&["string", "list", "zset"])), b("second-generation"), b(&format!("{}", pick_size(&mut r, false))), b("1")] });
        sc.steps.push(Step::Ctl { name: "save_restart".into(), n: *r.pick(&[0i64, 1_000_000_000]), a: vec![] });
    }
    sc
}

pub fn elem(r: &mut Rng, flavour: i64, i: u64) -> Vec<u8> {
    // unique by construction (index suffix) except for the integer-like pool, which is de-duplicated by the caller where needed
    match flavour {
        0 => format!("e{}", i).into_bytes(),
        1 => { let n = r.below(12) as usize; let mut v = r.bytes(n); v.extend_from_slice(format!("#{}", i).as_bytes()); v }
        2 => if (i as usize) < INT_LIKE.len() { INT_LIKE[i as usize].as_bytes().to_vec() } else { format!("{}", i as i64 * 7919 - 40000).into_bytes() },
        3 => { if i == 0 && r.chance(1, 3) { return if r.chance(2, 3) { b"__FERROUS_STREAM_MARKER__".to_vec() } else { b"__FERROUS_LIST_ESCAPE__".to_vec() }; } let mut v = r.pick(MARKER_KEYS).to_vec(); v.extend_from_slice(format!("{}", i).as_bytes()); v }
        _ => { let n = *r.pick(&[62usize, 63, 64, 65, 255, 256]); let mut v = vec![b'a' + (i % 26) as u8; n]; v.extend_from_slice(format!("{}", i).as_bytes()); v }
    }
}

/// Build the commands that create one value (chunked so that no single request exceeds ~4096 elements).
pub fn fill_cmds(seed: u64, typ: &str, key: &[u8], size: u64, flavour: i64) -> Vec<Vec<Vec<u8>>> {
    let mut r = Rng::new(seed);
    let mut out: Vec<Vec<Vec<u8>>> = Vec::new();
    let k = key.to_vec();
    match typ {
        "string" => {
            let v: Vec<u8> = match flavour { 2 => r.pick(INT_LIKE).as_bytes().to_vec(), 1 | 3 => r.bytes(size as usize), _ => vec![b'x'; size as usize] };
            out.push(vec![b"SET".to_vec(), k, v]);
        }
        "list" => { for chunk in (0..size).collect::<Vec<_>>().chunks(4096) { let mut c = vec![b"RPUSH".to_vec(), k.clone()]; for i in chunk { c.push(if r.chance(1, 10) { b"dup".to_vec() } else { elem(&mut r, flavour, *i) }); } out.push(c); } }
        "set" => { for chunk in (0..size).collect::<Vec<_>>().chunks(4096) { let mut c = vec![b"SADD".to_vec(), k.clone()]; for i in chunk { c.push(elem(&mut r, flavour, *i)); } out.push(c); } }
        "hash" => { for chunk in (0..size).collect::<Vec<_>>().chunks(2048) { let mut c = vec![b"HSET".to_vec(), k.clone()]; for i in chunk { c.push(elem(&mut r, flavour, *i)); let vf = r.below(5) as i64; c.push(elem(&mut r, vf, *i)); } out.push(c); } }
        "zset" => { for chunk in (0..size).collect::<Vec<_>>().chunks(2048) { let mut c = vec![b"ZADD".to_vec(), k.clone()]; for i in chunk { c.push(if r.chance(1, 2) { r.pick(SCORES).as_bytes().to_vec() } else { format!("{}", r.range(-50, 50)).into_bytes() }); c.push(elem(&mut r, flavour, *i)); } out.push(c); } }
        _ => {
            // streams: explicit ids incl. the limits, or automatic ones
            let explicit = r.chance(1, 2);
            for i in 0..size.min(3000) {
                let id = if explicit { if i + 1 == size.min(3000) && r.chance(1, 4) { "18446744073709551615-18446744073709551615".to_string() } else { format!("{}-{}", 1 + i / 3, i % 3 + if i < 3 { 1 } else { 0 }) } } else { "*".to_string() };
                let mut c = vec![b"XADD".to_vec(), k.clone(), id.into_bytes()];
                for f in 0..r.range(1, 3) { c.push(format!("f{}", f).into_bytes()); let vf = r.below(5) as i64; c.push(elem(&mut r, vf, i)); }
                out.push(c);
            }
        }
    }
    out
}

pub fn size_class(v: &DumpValue) -> &'static str {
    let n = match v { DumpValue::String(s) => s.len(), DumpValue::List(l) => l.len(), DumpValue::Set(s) => s.len(), DumpValue::Hash(h) => h.len(), DumpValue::ZSet(z) => z.len(), DumpValue::ZSetBroken(_) => 0, DumpValue::Stream { entries, .. } => entries.len() };
    match n { 0 => "n=0", 1..=63 => "n<64", 64..=16383 => "n<16384", 16384..=65535 => "n<65536", _ => "n>=65536" }
}
pub fn type_of(v: &DumpValue) -> &'static str { match v { DumpValue::String(_) => "string", DumpValue::List(_) => "list", DumpValue::Set(_) => "set", DumpValue::Hash(_) => "hash", DumpValue::ZSet(_) | DumpValue::ZSetBroken(_) => "zset", DumpValue::Stream { .. } => "stream" } }

/// what the property compares of a value: everything but the stream bookkeeping that is not part of "entries with their IDs and fields"
pub fn same_value(a: &DumpValue, b: &DumpValue) -> bool {
    match (a, b) {
        (DumpValue::Stream { entries: ea, .. }, DumpValue::Stream { entries: eb, .. }) => ea == eb,
        (DumpValue::ZSet(x), DumpValue::ZSet(y)) => { let mut x = x.clone(); let mut y = y.clone(); x.sort_by(|p, q| p.0.cmp(&q.0)); y.sort_by(|p, q| p.0.cmp(&q.0)); x.len() == y.len() && x.iter().zip(y.iter()).all(|(p, q)| p.0 == q.0 && (p.1 == q.1 || (p.1.is_nan() && q.1.is_nan()))) }
        _ => a == b,
    }
}

pub type Snapshot = Vec<BTreeMap<Vec<u8>, DumpEntry>>;
pub fn snapshot(h: &H, inst: usize) -> Snapshot {
    let storage = h.sim.instances[inst].storage.clone();
    (0..16).map(|db| storage.verif_dump(db).into_iter().map(|e| (e.key.clone(), e)).collect()).collect()
}

/// Compare the dataset loaded by a fresh server with the one that was saved `elapsed` ns earlier.
pub fn diff_restored(prop: &str, before: &Snapshot, after: &Snapshot, elapsed: u64, counts: &mut BTreeMap<String, u64>) -> Vec<(String, String)> {
    let mut out: Vec<(String, String)> = Vec::new();
    let tol: i128 = 2_000_000; // clock granularity of the dump format is 1 ms
    for db in 0..16 {
        for (k, e) in before[db].iter() {
            let ty = type_of(&e.value);
            if let Some(t) = e.ttl_ns { if t <= 0 { continue; } } // already expired when saved: either outcome
            let remaining = e.ttl_ns.map(|t| t - elapsed as i128);
            match (after[db].get(k), remaining) {
                (None, Some(rem)) if rem <= tol => { *counts.entry("expired_during_downtime_absent".into()).or_insert(0) += 1; }
                (None, _) => { out.push((format!("{}/missing-key/{}/{}", prop, ty, size_class(&e.value)), format!("db{} key {} ({} {}, ttl {:?}) is absent after the restart", db, esc(k), ty, size_class(&e.value), remaining))); }
                (Some(a), rem) => {
                    if let Some(rem) = rem { if rem < -tol { if a.ttl_ns.map_or(true, |t| t > 0) { out.push((format!("{}/expired-key-restored/{}", prop, ty), format!("db{} key {}: its deadline passed {} ns before the restart but it is back with ttl {:?}", db, esc(k), -rem, a.ttl_ns))); } continue; } }
                    if !same_value(&e.value, &a.value) {
                        out.push((format!("{}/value-differs/{}/{}", prop, ty, size_class(&e.value)), format!("db{} key {}: saved {} ; restored {}", db, esc(k), trunc(&format!("{:?}", e.value)), trunc(&format!("{:?}", a.value)))));
                        continue;
                    }
                    match (rem, a.ttl_ns) {
                        (None, None) => {}
                        (Some(_), None) => out.push((format!("{}/ttl-lost/{}", prop, ty), format!("db{} key {} had {:?} ns to live, restored without deadline", db, esc(k), rem))),
                        (None, Some(t)) => out.push((format!("{}/ttl-spurious/{}", prop, ty), format!("db{} key {} had no deadline, restored with {} ns", db, esc(k), t))),
                        (Some(r0), Some(t)) => { if (r0 - t).abs() > tol && !(r0 > 4_000_000_000_000_000_000 && t > 4_000_000_000_000_000_000) { out.push((format!("{}/ttl-differs/{}", prop, ty), format!("db{} key {}: {} ns were left, restored with {} ns", db, esc(k), r0, t))); } }
                    }
                    *counts.entry("keys_compared_equal".into()).or_insert(0) += 1;
                }
            }
        }
        for (k, a) in after[db].iter() { if !before[db].contains_key(k) { out.push((format!("{}/extra-key/{}", prop, type_of(&a.value)), format!("db{} key {} appeared after the restart", db, esc(k)))); } }
    }
    out
}

pub fn compare_restored(h: &mut H, prop: &str, before: &Snapshot, after: &Snapshot, elapsed: u64) {
    let mut counts = BTreeMap::new();
    for (c, d) in diff_restored(prop, before, after, elapsed, &mut counts) { h.violate(c, d); }
    for (k, v) in counts { h.count(&k, v); }
}

fn trunc(s: &str) -> String { if s.len() > 200 { format!("{}...", &s[..200]) } else { s.to_string() } }

/// Run one client command on the current instance; error replies to dataset-building commands are recorded as probes only.
pub fn run(h: &mut H, args: &[Vec<u8>]) -> Option<R> {
    let i = match h.cl(0) { Some(i) if !h.sim.clients[i].eof && !h.sim.clients[i].closed => i, _ => h.connect(0, h.inst, 0) };
    let r = h.cmd(i, args, &[]).reply;
    h.count("cmds", 1);
    match &r { Some(R::Err(_)) => h.count("build_command_refused", 1), None => h.count("build_command_no_reply", 1), _ => {} }
    if args.iter().map(|a| a.len()).sum::<usize>() < 200 { h.note(format!("{} -> {}", show_cmd(args), r.as_ref().map(|x| x.short()).unwrap_or_default())); }
    r
}

pub fn save_restart(h: &mut H, prop: &str, downtime: u64, generation: &mut u32) -> bool {
    let inst = h.inst;
    let before = snapshot(h, inst);
    let t0 = h.sim.now();
    match run(h, &[b"SAVE".to_vec()]) {
        Some(r) if r == R::ok() => {}
        other => { h.violate(format!("{}/save-refused", prop), format!("SAVE -> {:?}", other.map(|r| r.short()))); return false; }
    }
    // nothing may change between the snapshot taken above and the SAVE: the sweeper may have run, so re-read
    let before2 = snapshot(h, inst);
    // (remaining times-to-live are relative to the instant at which the snapshot that is used was read: the SAVE itself
    // may have taken time on a slow disk)
    let t2 = h.sim.now();
    let (before, t0) = if before2.iter().map(|m| m.len()).sum::<usize>() <= before.iter().map(|m| m.len()).sum::<usize>() { (before2, t2) } else { (before, t0) };
    let nkeys: usize = before.iter().map(|m| m.len()).sum();
    h.count("keys_saved", nkeys as u64);
    h.sim.kill(inst);
    h.sim.advance(downtime);
    *generation += 1;
    let cfg = h.sim.instances[inst].cfg.clone();
    let dir = h.sim.instances[inst].dir.clone();
    match h.sim.boot(&cfg, &dir) {
        Ok(ni) => { if let Some(i) = h.cl(0) { h.sim.close(i, crate::sim::CloseHow::Close); } h.inst = ni; h.connect(0, ni, 0); }
        Err(e) => { h.violate(format!("{}/load-failed", prop), format!("restart after SAVE of {} keys: {}", nkeys, e)); return false; }
    }
    h.count("restarts", 1);
    let after = snapshot(h, h.inst);
    let elapsed = h.sim.now() - t0;
    // Root cause with collateral damage (repaired, kept as a regression guard): streams are written as a list whose
    // first element is an internal marker string; a genuine list that starts with that string (or with the escape
    // string that now protects it) must not be read back as a stream - if it is, the reader loses its place in the
    // file, and such a run reports that one cause, not its many symptoms.
    let marker_list = before.iter().any(|m| m.values().any(|e| matches!(&e.value, DumpValue::List(l) if l.first().map_or(false, |x| x.as_slice() == b"__FERROUS_STREAM_MARKER__" || x.as_slice() == b"__FERROUS_LIST_ESCAPE__"))));
    let nviol = h.violations.len();
    compare_restored(h, prop, &before, &after, elapsed);
    if marker_list && h.violations.len() > nviol {
        let first = h.violations[nviol].detail.clone();
        h.violations.truncate(nviol);
        h.violate(format!("{}/list-starting-with-stream-marker", prop), format!("a list whose first element is the string __FERROUS_STREAM_MARKER__ was saved; after the restart the dataset differs (first difference: {})", first));
    }
    true
}

pub fn exec(sc: &Scenario) -> Outcome {
    let mut h = H::new(sc);
    if let Err(e) = h.boot(&sc.cfg, "a") { return Outcome { verdict: "harness".into(), note: e, ..Default::default() }; }
    let mut generation = 0u32;
    crate::world::g().disk_write_latency_ns = sc.knob("disk_write_latency_us", 0) as u64 * 1000;
    if sc.knob("disk_write_latency_us", 0) > 0 { h.count("fault_slow_disk_runs", 1); }
    for (i, st) in sc.steps.iter().enumerate() {
        h.step_no = i;
        if h.dead.is_some() { break; }
        match st {
            Step::Connect { c, buf, .. } => { let inst = h.inst; h.connect(*c, inst, *buf); }
            Step::Cmd { a, .. } => { run(&mut h, &args_of(a)); }
            Step::Adv { ns } => h.sim.advance(*ns),
            Step::Ctl { name, n, a } if name == "fill" && a.len() == 4 => {
                let typ = String::from_utf8_lossy(&a[0].0).to_string();
                let size = String::from_utf8_lossy(&a[2].0).parse::<u64>().unwrap_or(0);
                let flavour = String::from_utf8_lossy(&a[3].0).parse::<i64>().unwrap_or(0);
                for c in fill_cmds(*n as u64, &typ, &a[1].0, size, flavour) { run(&mut h, &c); if h.dead.is_some() { break; } }
                h.count(&format!("filled_{}", typ), 1);
                if size >= 16384 { h.count("probe_value_with_16384_or_more_elements", 1); }
            }
            Step::Ctl { name, a, .. } if name == "empty_stream" && a.len() == 1 => {
                // delete every entry: the stream stays, empty
                if let Some(R::Arr(es)) = run(&mut h, &[b"XRANGE".to_vec(), a[0].0.clone(), b"-".to_vec(), b"+".to_vec()]) {
                    let ids: Vec<Vec<u8>> = es.iter().filter_map(|e| if let R::Arr(p) = e { if let Some(R::Bulk(id)) = p.first() { Some(id.clone()) } else { None } } else { None }).collect();
                    for chunk in ids.chunks(512) { let mut c = vec![b"XDEL".to_vec(), a[0].0.clone()]; c.extend(chunk.iter().cloned()); run(&mut h, &c); }
                    h.count("probe_emptied_stream", 1);
                }
            }
            Step::Ctl { name, n, .. } if name == "save_restart" => { if !save_restart(&mut h, "C09", *n as u64, &mut generation) { break; } }
            _ => {}
        }
    }
    h.health_violations("C09");
    h.finish(sc.seed)
}

pub static DEF: CheckDef = CheckDef {
    id: "C09", level: "exploration", gen, exec,
    nontrivial: |o| o.counters.get("restarts").copied().unwrap_or(0) >= 1 && o.counters.get("keys_saved").copied().unwrap_or(0) >= 1,
    rule: "one run = a dataset of 1-40 keys built through the real command path in up to 5 of the 16 databases (strings, lists, sets, hashes, sorted sets, streams; element counts and string lengths drawn from 0/1/2/62..65/255/256/16382..16385/65535..65537/70000; elements that are short text, random binary, integer-looking strings at every integer-encoding boundary, strings that start with the dump format's own opcodes and magic, and strings of 62..256 bytes; keys that are empty, binary, equal to opcodes / the magic string, 63..16384 bytes long; scores incl. +-inf, -0, 5e-324, 1e300; stream ids incl. the greatest possible one, automatic ids, emptied streams; TTLs from 1 ms to the year 2100 and up to the greatest accepted value, 2^64-1 ms), then SAVE (in half of the runs on a slow disk: each completed write of the dump takes 0.2 / 5 / 80 ms of virtual time, so the clock moves while the snapshot is written), the server process is killed, the clocks advance by a downtime of 0 / 1 ms / 0.4 s / 1.2 s / 2 s / 30 s / ~3 years, and a fresh server is booted from the same directory (sometimes a second generation follows); oracle: the canonical stored dataset of the new process equals the one read from the old process at SAVE - per database the same keys with equal values (list order, set members, hash fields, scores numerically equal, stream entries with ids and fields), each remaining time-to-live equal within 2 ms, keys whose deadline passed during the downtime absent, no extra keys; non-trivial = at least one restart with at least one key saved",
    quick_budget_s: 40.0, thorough_budget_s: 900.0, quick_max_runs: 1_000_000, thorough_max_runs: 100_000_000, exhaustive: false, exhaustive_after: |_| 0,
    real: REAL_WHOLE_SERVER, stub: STUB_WHOLE_SERVER, assumptions: ASSUME_COMMON,
};
