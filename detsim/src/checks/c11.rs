//! C11 — the append-only file is a faithful redo log.
use super::c09::{same_value, snapshot, type_of, Snapshot};
use super::c18::data_cmd;
use super::multi::upper;
use super::*;
use crate::harness::*;
use crate::resp::{self, R};
use crate::scenario::*;
use crate::sim::*;
use std::collections::BTreeMap;

const WRAP: &str = "return redis.call(unpack(ARGV))";

/// Write commands beyond the ones `c18::data_cmd` produces (the rest of the catalogue).
fn extra_cmd(r: &mut Rng, uniq: &mut u64) -> Vec<B> {
    *uniq += 1;
    let v = |u: u64| b(&format!("v{}", u));
    let m = |r: &mut Rng| b(&format!("m{}", r.below(6)));
    match r.below(30) {
        0 => vec![b("SPOP"), b(*r.pick(&["s1", "s2"]))],
        1 => vec![b("SPOP"), b("s1"), b("2")],
        2 => vec![b("GETSET"), b("k1"), v(*uniq)],
        3 => vec![b("SETNX"), b(*r.pick(&["k1", "k3"])), v(*uniq)],
        4 => vec![b("SETEX"), b("k2"), b("100000"), v(*uniq)],
        5 => vec![b("PSETEX"), b("k2"), b("100000000"), v(*uniq)],
        6 => vec![b("PEXPIRE"), b(*r.pick(&["k1", "l1", "h1"])), b("100000000")],
        7 => vec![b("PERSIST"), b(*r.pick(&["k1", "k2", "l1"]))],
        8 => vec![b("INCRBY"), b("n1"), b(&format!("{}", r.range(-5, 5)))],
        9 => vec![b("DECR"), b("n1")],
        10 => vec![b("SETRANGE"), b("k1"), b(&format!("{}", r.below(8))), b("ZZ")],
        11 => vec![b("LSET"), b("l1"), b("0"), v(*uniq)],
        12 => vec![b("LTRIM"), b("l1"), b("0"), b(&format!("{}", r.below(4)))],
        13 => vec![b("LREM"), b("l1"), b("0"), b("dup")],
        14 => vec![b("RPUSH"), b("l1"), b("dup"), v(*uniq), b("dup")],
        15 => vec![b("HMSET"), b("h1"), b("fa"), v(*uniq), b("fb"), v(*uniq)],
        16 => vec![b("HINCRBY"), b("h2"), b("cnt"), b(&format!("{}", r.range(-3, 9)))],
        17 => vec![b("ZINCRBY"), b("z1"), b(&format!("{}", r.range(-3, 3))), m(r)],
        18 => vec![b(*r.pick(&["ZPOPMIN", "ZPOPMAX"])), b("z1")],
        19 => vec![b("XADD"), b("x1"), b("*"), b("f"), v(*uniq)],
        20 => vec![b("XTRIM"), b("x1"), b("MAXLEN"), b(&format!("{}", r.below(4)))],
        21 => vec![b("XDEL"), b("x1"), b(&format!("{}-1", r.below(40)))],
        22 => vec![b("RENAMENX"), b("k2"), b("k3")],
        23 => vec![b("DECRBY"), b("n1"), b("3")],
        24 => vec![b("SREM"), b("s2"), m(r)],
        25 => vec![b("MSET"), b("k1"), v(*uniq), b("k3"), v(*uniq)],
        26 => vec![b("BLPOP"), b(*r.pick(&["l1", "l2"])), b("1")],       // usually finds an element: an immediate pop
        27 => vec![b("BRPOP"), b("l2"), b("l1"), b("1")],
        28 => vec![b("INCR"), b("k1")],                                      // often fails (not an integer): must replay to the same nothing
        _ => vec![b("LPUSH"), b("k1"), v(*uniq)],                            // wrong type: fails, no effect
    }
}

pub fn gen(seed: u64, _idx: u64, tier: Tier) -> Scenario {
    let mut r = Rng::new(seed);
    let mut sc = Scenario::new("C11", seed);
    sc.cfg.appendonly = true;
    sc.cfg.fsync = *r.pick(&[0u8, 1, 2]);
    sc.knobs.insert("preempt".into(), *r.pick(&[0, 0, 50]));
    let nc = r.range(2, 4) as usize;
    for c in 0..nc { sc.steps.push(Step::Connect { c, inst: 0, buf: 0 }); }
    // which databases this run uses: only 0 (most defects are visible there), or several
    let dbs: Vec<i64> = if r.chance(1, 2) { vec![0] } else { vec![0, *r.pick(&[1i64, 5, 15])] };
    sc.steps.push(Step::Send { c: 0, a: vec![b("SCRIPT"), b("LOAD"), b(WRAP)], split: vec![] });
    sc.steps.push(Step::Turns { n: 2 });
    let mut uniq = 0u64;
    let n = match tier { Tier::Quick => r.range(8, 50), Tier::Thorough => r.range(8, 140) };
    let mut waiter: Option<usize> = None;
    let mut checkpoints = 0;
    for i in 0..n {
        let c = r.below(nc as u64) as usize;
        if Some(c) == waiter { continue; }
        let cmd = |r: &mut Rng, uniq: &mut u64, det: bool| -> Vec<B> {
            let mut a: Vec<B> = if r.chance(1, 2) && !det { extra_cmd(r, uniq) } else { data_cmd(r, uniq, det).into_iter().map(|x| B(String::from_utf8_lossy(&x.0).replace("@DB@", "").into_bytes())).collect() };
            // a quarter of the commands carry values that are not valid UTF-8 / contain NUL, CR, LF
            if r.chance(1, 4) { for x in a.iter_mut().skip(2) { if x.0.first() == Some(&b'v') && x.0.len() > 1 && x.0[1..].iter().all(|c| c.is_ascii_digit()) { let mut v = vec![0xff, 0x00, 0xc3, 0x28, b'\r', b'\n']; v.extend_from_slice(&x.0[1..]); *x = B(v); } } }
            a
        };
        match r.weighted(&[34, 10, 10, 5, 3, 8, 1, 2, 2]) {
            0 => sc.steps.push(Step::Send { c, a: cmd(&mut r, &mut uniq, false), split: vec![] }),
            1 => {
                sc.steps.push(Step::Send { c, a: vec![b("MULTI")], split: vec![] });
                for _ in 0..r.range(1, 5) { sc.steps.push(Step::Send { c, a: cmd(&mut r, &mut uniq, false), split: vec![] }); }
                sc.steps.push(Step::Send { c, a: vec![b(if r.chance(7, 8) { "EXEC" } else { "DISCARD" })], split: vec![] });
            }
            2 => {
                // (now and then a command whose outcome is random or taken from the clock: the log has to replay to the same outcome)
                let inner = if r.chance(1, 30) { uniq += 1; if r.chance(1, 2) { vec![b("SPOP"), b(*r.pick(&["s1", "s2"]))] } else { vec![b("XADD"), b("x1"), b("*"), b("f"), b(&format!("v{}", uniq))] } } else { cmd(&mut r, &mut uniq, true) };
                // (a script whose write took effect has to be in the log whatever it replies afterwards: an error reply, an abort)
                let mut a = if r.chance(1, 3) { vec![b("EVALSHA"), b("@SHA@"), b("0")] } else { vec![b("EVAL"), b(*r.pick(&[WRAP, WRAP, WRAP, "redis.call(unpack(ARGV)); return redis.error_reply('after the write')", "redis.call(unpack(ARGV)); return redis.call('NOSUCHCOMMAND')", "redis.call(unpack(ARGV)); error('after the write')", "redis.call(unpack(ARGV)); return redis.pcall('INCR')"])), b("0")] };
                a.extend(inner);
                sc.steps.push(Step::Send { c, a, split: vec![] });
            }
            3 => {
                // a blocked client served later by a push from another connection
                if waiter.is_none() && nc >= 2 {
                    sc.steps.push(Step::Send { c, a: vec![b("DEL"), b("bl")], split: vec![] });
                    sc.steps.push(Step::Turns { n: 2 });
                    sc.steps.push(Step::Send { c, a: vec![b(*r.pick(&["BLPOP", "BRPOP"])), b("bl"), b("0")], split: vec![] });
                    sc.steps.push(Step::Turns { n: 2 });
                    let o = (c + 1) % nc;
                    uniq += 1;
                    let mut push = vec![b(*r.pick(&["RPUSH", "LPUSH"])), b("bl")];
                    for k in 0..r.range(1, 3) { push.push(b(&format!("w{}-{}", uniq, k))); }
                    sc.steps.push(Step::Send { c: o, a: push, split: vec![] });
                    sc.steps.push(Step::Turns { n: 3 });
                }
            }
            4 => { if dbs.len() > 1 { let d = *r.pick(&dbs); sc.steps.push(Step::Send { c, a: vec![b("SELECT"), b(&format!("{}", d))], split: vec![] }); } }
            5 => sc.steps.push(Step::Turns { n: r.range(1, 2) as u32 }),
            6 => sc.steps.push(Step::Send { c, a: vec![b(*r.pick(&["FLUSHDB", "FLUSHALL"]))], split: vec![] }),
            8 => {
                // a transient failure of one of the next AOF writes (or a short write): later appends must leave a well-formed, complete log
                let action = if r.chance(1, 2) { crate::world::Action::Errno(*r.pick(&[libc::ENOSPC, libc::EIO, libc::EINTR, libc::EAGAIN])) } else { crate::world::Action::Short(*r.pick(&[1usize, 3, 10])) };
                sc.steps.push(Step::Arm { fop: crate::world::Op::Write, conn: None, class: Some(crate::world::FileClass::Aof), nth: r.below(3), action, inst: 0 });
            }
            _ => { if checkpoints < 2 && i > 5 { checkpoints += 1; sc.steps.push(Step::Turns { n: 3 }); sc.steps.push(Step::Ctl { name: "checkpoint".into(), n: 0, a: vec![] }); } }
        }
        if r.chance(1, 3) { sc.steps.push(Step::Turns { n: 1 }); }
        if r.chance(1, 20) { sc.steps.push(Step::Adv { ns: *r.pick(&[1_000_000u64, 1_100_000_000]) }); }
    }
    let _ = waiter.take();
    if r.chance(1, 4) {
        // the server is restarted (SAVE first: it loads its dataset from the dump and goes on appending to the same log):
        // the log as a whole must still replay to the dataset the new process has
        sc.steps.push(Step::Turns { n: 4 });
        sc.steps.push(Step::Ctl { name: "restart".into(), n: 0, a: vec![] });
        for _ in 0..r.range(1, 8) {
            let c = r.below(nc as u64) as usize;
            if r.chance(1, 5) { sc.steps.push(Step::Send { c, a: vec![b("SELECT"), b(&format!("{}", *r.pick(&dbs)))], split: vec![] }); }
            let a: Vec<B> = if r.chance(1, 2) { extra_cmd(&mut r, &mut uniq) } else { data_cmd(&mut r, &mut uniq, false).into_iter().map(|x| B(String::from_utf8_lossy(&x.0).replace("@DB@", "").into_bytes())).collect() };
            sc.steps.push(Step::Send { c, a, split: vec![] });
            if r.chance(1, 2) { sc.steps.push(Step::Turns { n: 1 }); }
        }
    }
    sc.steps.push(Step::Turns { n: 4 });
    sc.steps.push(Step::Ctl { name: "checkpoint".into(), n: 1, a: vec![] });
    sc
}

#[derive(Clone)]
struct Sent { c: usize, db_hint: usize, args: Vec<Vec<u8>>, path: &'static str }

/// Parse the AOF bytes into command frames; Err(offset) if the bytes are not a sequence of complete frames.
fn parse_aof(bytes: &[u8]) -> Result<Vec<Vec<Vec<u8>>>, (usize, String)> {
    let mut pos = 0;
    let mut out = Vec::new();
    while pos < bytes.len() {
        match resp::parse(&bytes[pos..]) {
            Ok((R::Arr(items), n)) => {
                let mut args = Vec::new();
                for it in items { match it { R::Bulk(x) => args.push(x), other => return Err((pos, format!("a command frame holds a non-bulk element: {}", other.short()))) } }
                if args.is_empty() { return Err((pos, "empty command frame".into())); }
                out.push(args);
                pos += n;
            }
            Ok((other, _)) => return Err((pos, format!("not a command frame: {}", other.short()))),
            Err(e) => return Err((pos, format!("{:?}", e))),
        }
    }
    Ok(out)
}

fn live_part(s: &Snapshot) -> Vec<BTreeMap<Vec<u8>, (ferrous::verif::DumpValue, bool)>> {
    // (an entry of the expiry index whose key is gone is shown by the accessor as an empty list without deadline: not a key)
    s.iter().map(|d| d.iter().filter(|(_, e)| !(matches!(&e.value, ferrous::verif::DumpValue::List(l) if l.is_empty()) && e.ttl_ns.is_none() && e.index_ttl_ns.is_some())).filter(|(_, e)| e.ttl_ns.map_or(true, |t| t > 0)).map(|(k, e)| (k.clone(), (e.value.clone(), e.ttl_ns.is_some()))).collect()).collect()
}

fn checkpoint(h: &mut H, history: &[Sent], final_one: bool) {
    let inst = h.inst;
    // after an injected write error the unwritten rest of the log sits in the server's write buffer until the
    // next append flushes it: one more (logged) write command brings the file up to date
    if h.counters.get("aof_write_faults_armed").copied().unwrap_or(0) > 0 {
        crate::world::g().armed.clear();
        let fc = h.connect(800 + h.sim.clients.len(), inst, 0);
        let _ = h.cmd(fc, &[b"SET".to_vec(), b"__flush__".to_vec(), b"1".to_vec()], &[]);
        h.sim.close(fc, CloseHow::Close);
    }
    let path = format!("{}/appendonly.aof", h.sim.instances[inst].dir);
    let bytes = match std::fs::read(&path) { Ok(b) => b, Err(e) => { h.violate("C11/no-aof-file".into(), format!("{}: {}", path, e)); return; } };
    h.count("aof_bytes", bytes.len() as u64);
    if h.keep_transcript { let _ = std::fs::write("/tmp/c11_aof.bin", &bytes); }
    let cmds = match parse_aof(&bytes) {
        Ok(c) => c,
        Err((off, why)) => { h.violate("C11/aof-not-a-sequence-of-command-frames".into(), format!("at offset {} of {}: {} (context: {})", off, bytes.len(), why, resp::escape(&bytes[off.saturating_sub(20)..(off + 40).min(bytes.len())]))); return; }
    };
    h.count("aof_commands", cmds.len() as u64);
    let live = live_part(&snapshot(h, inst));
    // replay into a fresh server without persistence
    let mut cfg = h.sim.instances[inst].cfg.clone();
    cfg.appendonly = false;
    let dir = h.sim.new_dir(&format!("replay{}", h.sim.instances.len()));
    let b_inst = match h.sim.boot(&cfg, &dir) { Ok(i) => i, Err(e) => { h.violate("C11/harness-replay-boot".into(), e); return; } };
    let saved_inst = h.inst;
    h.inst = b_inst;
    let rc = h.connect(900 + b_inst, b_inst, 0);
    let mut failed_replies = 0u64;
    for c in &cmds {
        let r = h.cmd(rc, c, &[]);
        match r.reply { None => { h.violate("C11/harness-replay-no-reply".into(), show_cmd(c)); break; } Some(R::Err(_)) => failed_replies += 1, _ => {} }
        if h.dead.is_some() { break; }
    }
    h.count("replayed_commands_refused", failed_replies);
    let replayed = live_part(&snapshot(h, b_inst));
    h.sim.close(rc, CloseHow::Close);
    h.sim.kill(b_inst);
    h.inst = saved_inst;
    h.dead = None;
    h.count("checkpoints", 1);
    // compare
    if h.keep_transcript { for db in 0..16 { if !live[db].is_empty() || !replayed[db].is_empty() { h.note(format!("db{} live {:?} | replay {:?}", db, live[db], replayed[db])); } } }
    // after a restart streams are left out: the dump does not carry a stream's last id (nor its groups), so the restarted
    // server accepts ids the log's replay refuses - a limit of the dump (DESIGN 11.8), not of the log
    let restarted = h.counters.get("restarts").copied().unwrap_or(0) > 0;
    let mut live = live; let mut replayed = replayed;
    if restarted { for db in 0..16 { let ks: Vec<Vec<u8>> = live[db].iter().chain(replayed[db].iter()).filter(|(_, (v, _))| matches!(v, ferrous::verif::DumpValue::Stream { .. })).map(|(k, _)| k.clone()).collect(); for k in ks { live[db].remove(&k); replayed[db].remove(&k); } } }
    for db in 0..16 {
        let (a, bb) = (&live[db], &replayed[db]);
        let mut diff: Option<(Vec<u8>, String)> = None;
        for (k, (v, has_ttl)) in a.iter() {
            match bb.get(k) {
                None => { diff = Some((k.clone(), format!("db{} key {} ({}) exists on the live server, the replay has no such key", db, esc(k), type_of(v)))); break; }
                Some((v2, t2)) => {
                    if !same_value(v, v2) { diff = Some((k.clone(), format!("db{} key {}: live {} ; replay {}", db, esc(k), trunc(&format!("{:?}", v)), trunc(&format!("{:?}", v2))))); break; }
                    if has_ttl != t2 { diff = Some((k.clone(), format!("db{} key {}: live server {} a deadline, the replay {}", db, esc(k), if *has_ttl { "has" } else { "has no" }, if *t2 { "has one" } else { "has none" }))); break; }
                }
            }
        }
        if diff.is_none() { for (k, (v, _)) in bb.iter() { if !a.contains_key(k) { diff = Some((k.clone(), format!("db{} key {} ({}) exists after the replay but not on the live server", db, esc(k), type_of(v)))); break; } } }
        if let Some((key, detail)) = diff {
            // attribute the difference to the last command of the live history that named this key
            let last = history.iter().rev().find(|s| s.args.iter().skip(1).any(|a| *a == key) || matches!(upper(&s.args[0]).as_str(), "FLUSHDB" | "FLUSHALL"));
            // ... unless a script with a random / clock-dependent outcome wrote to this key earlier: the log holds the script
            // itself, so everything after it on this key differs (a recorded finding) - that script is then the cause named
            let random_script = history.iter().find(|s| matches!(upper(&s.args[0]).as_str(), "EVAL" | "EVALSHA") && s.args.get(4) == Some(&key)
                && (s.args.get(3).map(|x| upper(x)).as_deref() == Some("SPOP") || (s.args.get(3).map(|x| upper(x)).as_deref() == Some("XADD") && s.args.get(5).map(|x| x.as_slice()) == Some(&b"*"[..]))));
            let last = random_script.or(last);
            let (verb, pth) = match last { Some(s) => { let v = upper(&s.args[0]); (if v == "EVAL" || v == "EVALSHA" { format!("{}:{}{}", v, s.args.get(3).map(|x| upper(x)).unwrap_or_default(), if s.args.get(3).map(|x| upper(x)).as_deref() == Some("XADD") && s.args.get(5).map(|x| x.as_slice()) == Some(&b"*"[..]) { "*" } else { "" }) } else { v }, s.path) } None => ("?".to_string(), "-") };
            let dbclass = if db == 0 { "db0" } else { "other-db" };
            h.violate(format!("C11/replay-differs/{}/{}/{}", verb, pth, dbclass), format!("{} (last command naming the key: {} via {}; AOF has {} commands, {} refused on replay){}", detail, last.map(|s| show_cmd(&s.args)).unwrap_or_default(), pth, cmds.len(), failed_replies, if final_one { "" } else { " [intermediate checkpoint]" }));
            return;
        }
    }
    h.count("checkpoints_equal", 1);
}

fn trunc(s: &str) -> String { if s.len() > 140 { format!("{}...", &s[..140]) } else { s.to_string() } }

pub fn exec(sc: &Scenario) -> Outcome {
    let mut h = H::new(sc);
    h.sim.preempt_permille = sc.knob("preempt", 0) as u32;
    if let Err(e) = h.boot(&sc.cfg, "a") { return Outcome { verdict: "harness".into(), note: e, ..Default::default() }; }
    let mut history: Vec<Sent> = Vec::new();
    let mut in_multi: BTreeMap<usize, bool> = BTreeMap::new();
    let mut dbsel: BTreeMap<usize, usize> = BTreeMap::new();
    let mut sha: Option<Vec<u8>> = None;
    for (i, st) in sc.steps.iter().enumerate() {
        h.step_no = i;
        if h.dead.is_some() { break; }
        match st {
            Step::Connect { c, buf, .. } => { let inst = h.inst; h.connect(*c, inst, *buf); }
            Step::Send { c, a, .. } => {
                let ci = match h.cl(*c) { Some(x) => x, None => continue };
                let mut args: Vec<Vec<u8>> = a.iter().map(|x| x.0.clone()).collect();
                if args[0] == b"EVALSHA" { match &sha { Some(s) => args[1] = s.clone(), None => { args[0] = b"EVAL".to_vec(); args[1] = WRAP.as_bytes().to_vec(); } } }
                let verb = upper(&args[0]);
                let im = *in_multi.get(c).unwrap_or(&false);
                let path = if verb == "EVAL" || verb == "EVALSHA" { "script" } else if im { "exec" } else if verb == "BLPOP" || verb == "BRPOP" { "blocking" } else { "direct" };
                match verb.as_str() { "MULTI" => { in_multi.insert(*c, true); } "EXEC" | "DISCARD" => { in_multi.insert(*c, false); } "SELECT" if !im => { if let Some(d) = args.get(1).and_then(|x| std::str::from_utf8(x).ok()).and_then(|x| x.parse::<usize>().ok()) { if d < 16 { dbsel.insert(*c, d); } } } _ => {} }
                history.push(Sent { c: *c, db_hint: *dbsel.get(c).unwrap_or(&0), args: args.clone(), path });
                h.send_bytes(ci, &resp::encode_cmd(&args), &[]);
                h.count("cmds", 1);
                h.count(&format!("path_{}", path), 1);
            }
            Step::Turns { n } => {
                for _ in 0..*n { h.turn(); }
                // learn the script digest from the SCRIPT LOAD reply
                if sha.is_none() { if let Some(ci) = h.cl(0) { for r in h.cs[ci].replies.iter() { if let R::Bulk(x) = r { if x.len() == 40 && x.iter().all(|c| c.is_ascii_hexdigit()) { sha = Some(x.clone()); } } } } }
                for ci in 0..h.cs.len() { let n = h.cs[ci].replies.len(); for r in h.cs[ci].replies.drain(..n) { if h.keep_transcript { let line = format!("c{} <- {}", ci, r.short()); h.transcript.push(line); } } }
            }
            Step::Adv { ns } => h.sim.advance(*ns),
            Step::Arm { fop, class, nth, action, .. } => { let inst = h.inst; h.sim.arm(inst, *fop, None, *class, *nth, *action); h.count("aof_write_faults_armed", 1); }
            Step::Ctl { name, .. } if name == "restart" => {
                for _ in 0..3 { h.turn(); }
                let inst = h.inst;
                // (after an injected write error the rest of the log is still in the server's write buffer: as before a
                // checkpoint, one more logged command brings the file up to date - what a crash would lose then is not judged)
                if h.counters.get("aof_write_faults_armed").copied().unwrap_or(0) > 0 {
                    crate::world::g().armed.clear();
                    let fc = h.connect(800 + h.sim.clients.len(), inst, 0);
                    let _ = h.cmd(fc, &[b"SET".to_vec(), b"__flush__".to_vec(), b"1".to_vec()], &[]);
                    h.sim.close(fc, CloseHow::Close);
                }
                let sc_conn = h.connect(860, inst, 0);
                match h.cmd(sc_conn, &[b"SAVE".to_vec()], &[]).reply { Some(x) if x == R::ok() => {} other => { h.note(format!("SAVE before the restart -> {:?}: no restart in this run", other.map(|x| x.short()))); continue; } }
                let ids: Vec<usize> = h.cmap.keys().copied().filter(|c| *c < 800).collect();
                for c in ids.iter() { if let Some(i) = h.cl(*c) { h.sim.close(i, crate::sim::CloseHow::Close); } }
                h.sim.close(sc_conn, crate::sim::CloseHow::Close);
                h.sim.kill(inst);
                let (cfg, dir) = (h.sim.instances[inst].cfg.clone(), h.sim.instances[inst].dir.clone());
                match h.sim.boot(&cfg, &dir) {
                    Ok(ni) => { h.inst = ni; for c in ids { h.connect(c, ni, 0); } }
                    Err(e) => { h.violate("C11/restart-failed".into(), e); break; }
                }
                in_multi.clear(); dbsel.clear(); sha = None;
                h.count("restarts", 1);
            }
            Step::Ctl { name, n, .. } if name == "checkpoint" => { for _ in 0..3 { h.turn(); } checkpoint(&mut h, &history, *n == 1); }
            _ => {}
        }
    }
    h.health_violations("C11");
    h.finish(sc.seed)
}

pub static DEF: CheckDef = CheckDef {
    id: "C11", level: "exploration", gen, exec,
    nontrivial: |o| o.counters.get("checkpoints").copied().unwrap_or(0) >= 1 && o.counters.get("cmds").copied().unwrap_or(0) >= 8,
    rule: "one run = a server with appendonly on (fsync always / everysec / no) and 2-4 connections in one or two databases issuing 8-140 commands over the write-command catalogue (string, key, list, set, hash, sorted-set and stream writers incl. SPOP with and without count, ZPOPMIN/MAX, XADD with automatic ids, GETSET, SETNX, SETEX/PSETEX/PEXPIRE/PERSIST with long deadlines, SETRANGE, LSET/LTRIM/LREM, HMSET/HINCRBY, ZINCRBY, RENAME/RENAMENX, MSET, FLUSHDB/FLUSHALL, commands that fail at run time) through every execution path - directly, queued in MULTI/EXEC (or DISCARDed), through EVAL / EVALSHA of a pass-through script, as BLPOP/BRPOP that pop at once, and as blocked clients served later by another connection's push; some runs make one of the next AOF writes fail (ENOSPC, EIO, EINTR, EAGAIN) or come back short; at up to three checkpoints (always at the end) the AOF bytes on the simulated disk are parsed by the harness' own RESP reader - they must be a sequence of complete command frames - and replayed in file order into a fresh server without persistence; oracle: the canonical dataset of the replay equals the live server's (per database: keys, values, presence of a deadline); a difference is attributed to the last live command that named the differing key and its execution path; in a quarter of the runs the server is restarted near the end (SAVE, kill, start from the dump, go on appending to the same log) and a few more commands follow - the log as a whole must still replay to the dataset of the new process (streams excepted); non-trivial = at least one checkpoint and 8 commands",
    quick_budget_s: 40.0, thorough_budget_s: 900.0, quick_max_runs: 1_000_000, thorough_max_runs: 100_000_000, exhaustive: false, exhaustive_after: |_| 0,
    real: REAL_WHOLE_SERVER, stub: STUB_WHOLE_SERVER, assumptions: ASSUME_COMMON,
};
