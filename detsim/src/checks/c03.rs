//! C03 — list, set and hash commands follow the Redis reference semantics.
use super::seq::Seq;
use super::*;
use crate::harness::*;
use crate::scenario::*;

fn idx(r: &mut Rng) -> B {
    if r.chance(1, 6) { b(*r.pick(&["9223372036854775807", "-9223372036854775808", "2147483648", "-2147483649", "abc", "", "1.5"])) }
    else { b(&format!("{}", r.range(-8, 8))) }
}

pub fn gen(seed: u64, _idx: u64, tier: Tier) -> Scenario {
    let mut r = Rng::new(seed);
    let mut sc = Scenario::new("C03", seed);
    sc.knobs.insert("preempt".into(), *r.pick(&[0, 0, 10, 100]));
    sc.steps.push(Step::Connect { c: 0, inst: 0, buf: 0 });
    let keys: Vec<B> = vec![b("l1"), b("l2"), b("s1"), b("s2"), b("s3"), b("h1"), b("h2"), b("x"), B(vec![0xff, 0x00]), b("str")];
    let elems: Vec<B> = vec![b("a"), b("b"), b("c"), b("a"), b("d"), b(""), B(vec![0, 0xff, b'\r', b'\n']), b("10"), b("-3"), b("9223372036854775807"), b("1.5"), b("e e"), b("+5"), b("05"), b("-0"), b(" 7")];
    let n = match tier { Tier::Quick => r.range(20, 150), Tier::Thorough => r.range(20, 300) };
    sc.steps.push(Step::Cmd { c: 0, a: vec![b("SET"), b("str"), b("v")], split: vec![] });
    for _ in 0..n {
        // mostly the key of the matching family, sometimes any key (wrong type / missing)
        let fam = r.below(3);
        let k = |r: &mut Rng| -> B { if r.chance(1, 8) { r.pick(&keys).clone() } else { match fam { 0 => r.pick(&keys[0..2]).clone(), 1 => r.pick(&keys[2..5]).clone(), _ => r.pick(&keys[5..7]).clone() } } };
        let e = |r: &mut Rng| -> B { r.pick(&elems).clone() };
        let a: Vec<B> = match fam {
            0 => match r.weighted(&[10, 10, 6, 6, 4, 8, 5, 5, 5, 6, 2]) {
                0 => { let mut a = vec![b("LPUSH"), k(&mut r)]; for _ in 0..r.range(1, 4) { a.push(e(&mut r)); } a }
                1 => { let mut a = vec![b("RPUSH"), k(&mut r)]; for _ in 0..r.range(1, 4) { a.push(e(&mut r)); } a }
                2 => vec![b("LPOP"), k(&mut r)],
                3 => vec![b("RPOP"), k(&mut r)],
                4 => vec![b("LLEN"), k(&mut r)],
                5 => vec![b("LRANGE"), k(&mut r), idx(&mut r), idx(&mut r)],
                6 => vec![b("LINDEX"), k(&mut r), idx(&mut r)],
                7 => vec![b("LSET"), k(&mut r), idx(&mut r), e(&mut r)],
                8 => vec![b("LTRIM"), k(&mut r), idx(&mut r), idx(&mut r)],
                9 => vec![b("LREM"), k(&mut r), idx(&mut r), e(&mut r)],
                _ => { let v = *r.pick(&["LPUSH", "LRANGE", "LSET", "LREM", "LINDEX", "LTRIM", "LLEN", "LPOP"]); let mut a = vec![b(v)]; for _ in 0..r.below(3) { a.push(k(&mut r)); } a }
            },
            1 => match r.weighted(&[12, 8, 6, 5, 4, 5, 5, 5, 6, 6, 2]) {
                0 => { let mut a = vec![b("SADD"), k(&mut r)]; for _ in 0..r.range(1, 4) { a.push(e(&mut r)); } a }
                1 => { let mut a = vec![b("SREM"), k(&mut r)]; for _ in 0..r.range(1, 3) { a.push(e(&mut r)); } a }
                2 => vec![b("SMEMBERS"), k(&mut r)],
                3 => vec![b("SISMEMBER"), k(&mut r), e(&mut r)],
                4 => vec![b("SCARD"), k(&mut r)],
                5 => { let mut a = vec![b("SUNION")]; for _ in 0..r.range(1, 3) { a.push(k(&mut r)); } a }
                6 => { let mut a = vec![b("SINTER")]; for _ in 0..r.range(1, 3) { a.push(k(&mut r)); } a }
                7 => { let mut a = vec![b("SDIFF")]; for _ in 0..r.range(1, 3) { a.push(k(&mut r)); } a }
                8 => { let mut a = vec![b("SPOP"), k(&mut r)]; if r.chance(1, 2) { a.push(b(&format!("{}", r.range(-1, 5)))); } a }
                9 => { let mut a = vec![b("SRANDMEMBER"), k(&mut r)]; if r.chance(2, 3) { a.push(b(&format!("{}", r.range(-6, 6)))); } a }
                _ => { let v = *r.pick(&["SADD", "SREM", "SISMEMBER", "SCARD", "SMEMBERS", "SUNION"]); let mut a = vec![b(v)]; for _ in 0..r.below(2) { a.push(k(&mut r)); } a }
            },
            _ => match r.weighted(&[12, 5, 6, 5, 5, 6, 3, 4, 3, 3, 7, 2]) {
                0 => { let mut a = vec![b("HSET"), k(&mut r)]; for _ in 0..r.range(1, 3) { a.push(e(&mut r)); a.push(e(&mut r)); } if r.chance(1, 12) { a.push(e(&mut r)); } a }
                1 => { let mut a = vec![b("HMSET"), k(&mut r)]; for _ in 0..r.range(1, 3) { a.push(e(&mut r)); a.push(e(&mut r)); } a }
                2 => vec![b("HGET"), k(&mut r), e(&mut r)],
                3 => { let mut a = vec![b("HMGET"), k(&mut r)]; for _ in 0..r.range(1, 3) { a.push(e(&mut r)); } a }
                4 => vec![b("HGETALL"), k(&mut r)],
                5 => { let mut a = vec![b("HDEL"), k(&mut r)]; for _ in 0..r.range(1, 3) { a.push(e(&mut r)); } a }
                6 => vec![b("HLEN"), k(&mut r)],
                7 => vec![b("HEXISTS"), k(&mut r), e(&mut r)],
                8 => vec![b("HKEYS"), k(&mut r)],
                9 => vec![b("HVALS"), k(&mut r)],
                10 => vec![b("HINCRBY"), k(&mut r), e(&mut r), b(*r.pick(&["1", "-1", "5", "9223372036854775807", "-9223372036854775808", "abc", "1.5", "0"]))],
                _ => { let v = *r.pick(&["HSET", "HGET", "HDEL", "HLEN", "HINCRBY", "HMGET", "HGETALL"]); let mut a = vec![b(v)]; for _ in 0..r.below(3) { a.push(k(&mut r)); } a }
            },
        };
        sc.steps.push(Step::Cmd { c: 0, a, split: vec![] });
        if r.chance(1, 25) { let kk = r.pick(&keys).clone(); sc.steps.push(Step::Cmd { c: 0, a: vec![b(*r.pick(&["TYPE", "EXISTS", "DEL"])), kk], split: vec![] }); }
    }
    sc
}

pub fn exec(sc: &Scenario) -> Outcome {
    let mut s = match Seq::new(sc, "C03") { Ok(s) => s, Err(o) => return o };
    for (i, st) in sc.steps.iter().enumerate() {
        s.h.step_no = i;
        if s.h.dead.is_some() { break; }
        s.run_step(st);
    }
    s.finish(sc.seed)
}

pub static DEF: CheckDef = CheckDef {
    id: "C03", level: "exploration", gen, exec,
    nontrivial: |o| o.counters.get("cmds").copied().unwrap_or(0) >= 20,
    rule: "one run = one seeded history of 20-300 list/set/hash commands (all index forms incl. beyond both ends, reversed, i64 bounds and non-integers; duplicate elements; LREM counts of both signs; multi-key set algebra over present/missing/wrong-type keys; SPOP/SRANDMEMBER with all count signs; HINCRBY at i64 bounds; empty/binary/CRLF elements; wrong arities) with per-seed process entropy (hash iteration orders, random picks); every reply is compared with the reference model (unordered replies as multisets, random picks must come from the current members, the model then follows the pick) and the stored dataset is compared after every command (emptied collections must vanish); non-trivial = at least 20 commands; distinct = distinct event-log hash",
    quick_budget_s: 40.0, thorough_budget_s: 900.0, quick_max_runs: 1_000_000, thorough_max_runs: 100_000_000, exhaustive: false, exhaustive_after: |_| 0,
    real: REAL_WHOLE_SERVER, stub: STUB_WHOLE_SERVER, assumptions: ASSUME_COMMON,
};
