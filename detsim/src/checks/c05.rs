//! C05 — every request gets exactly one reply, in order, and errors are replies.
use super::*;
use crate::harness::*;
use crate::resp::{self, R};
use crate::scenario::*;
use crate::sim::*;
use std::collections::BTreeMap;

// request kinds
const K_ECHO: i64 = 0; // sentinel: reply must be the bulk string a[1]
const K_ERR: i64 = 1; // must be answered by exactly one error reply
const K_OK: i64 = 2; // must be answered by exactly one non-error reply
const K_ANY: i64 = 3; // exactly one reply of any kind
const K_SUB: i64 = 5; // a subscription acknowledgement: ["subscribe" | "unsubscribe" | "psubscribe" | "punsubscribe", name, count]
const K_PROTO: i64 = 4; // protocol violation: an error reply must follow (end of this connection's stream)

fn cmd(parts: &[&[u8]]) -> Vec<u8> { resp::encode_cmd(&parts.iter().map(|p| p.to_vec()).collect::<Vec<_>>()) }

fn catalogue(r: &mut Rng, conn: usize) -> (i64, Vec<u8>) {
    let s = format!("s{}", conn); let s = s.as_bytes();
    let l = format!("l{}", conn); let l = l.as_bytes();
    let st = format!("set{}", conn); let st = st.as_bytes();
    let h = format!("h{}", conn); let h = h.as_bytes();
    let z = format!("z{}", conn); let z = z.as_bytes();
    let n = format!("n{}", conn); let n = n.as_bytes();
    let big = vec![b'q'; *r.pick(&[100usize, 3000, 9000, 20000])];
    match r.below(68) {
        // replies whose text comes from the client, built by a script: one well-formed reply each
        62 => (K_ERR, cmd(&[b"EVAL", b"return {err=ARGV[1]}", b"0", b"MYERR a\r\n+OK\r\n:1"])),
        63 => (K_OK, cmd(&[b"EVAL", b"return {ok=ARGV[1]}", b"0", b"fine\r\n-ERR injected\r\n"])),
        64 => (K_ERR, cmd(&[b"EVAL", b"return redis.error_reply(ARGV[1])", b"0", b"X\ny\rz"])),
        65 => (K_OK, cmd(&[b"EVAL", b"return redis.status_reply(ARGV[1])", b"0", b"multi\r\nline"])),
        66 => (K_ERR, cmd(&[b"EVAL", b"return redis.call(ARGV[1], ARGV[2])", b"0", b"NOSUCH\r\nCMD", b"x"])),
        67 => (K_ERR, cmd(&[b"EVAL", b"error(ARGV[1])", b"0", b"boom\r\n+OK"])),
        0 => (K_OK, cmd(&[b"PING"])),
        1 => (K_OK, cmd(&[b"PING", b"hello"])),
        2 => (K_OK, cmd(&[b"SET", s, b"value"])),
        3 => (K_OK, cmd(&[b"GET", s])),
        4 => (K_OK, cmd(&[b"GET", b"missing"])),
        5 => (K_OK, cmd(&[b"INCR", n])),
        6 => (K_OK, cmd(&[b"APPEND", s, b"x"])),
        7 => (K_OK, cmd(&[b"STRLEN", s])),
        8 => (K_OK, cmd(&[b"DEL", b"tmp"])),
        9 => (K_OK, cmd(&[b"EXISTS", s])),
        10 => (K_OK, cmd(&[b"TYPE", s])),
        11 => (K_OK, cmd(&[b"RPUSH", l, b"a", b"b"])),
        12 => (K_OK, cmd(&[b"LRANGE", l, b"0", b"-1"])),
        13 => (K_OK, cmd(&[b"SADD", st, b"a"])),
        14 => (K_OK, cmd(&[b"SMEMBERS", st])),
        15 => (K_OK, cmd(&[b"HSET", h, b"f", b"v"])),
        16 => (K_OK, cmd(&[b"HGETALL", h])),
        17 => (K_OK, cmd(&[b"ZADD", z, b"1", b"m"])),
        18 => (K_OK, cmd(&[b"ZRANGE", z, b"0", b"-1", b"WITHSCORES"])),
        19 => (K_OK, cmd(&[b"DBSIZE"])),
        20 => (K_OK, cmd(&[b"KEYS", b"*"])),
        21 => (K_OK, cmd(&[b"TTL", s])),
        22 => (K_OK, cmd(&[b"MSET", b"a", b"1", b"b", b"2"])),
        23 => (K_OK, cmd(&[b"MGET", b"a", b"b", b"nokey"])),
        24 => (K_OK, cmd(&[b"SELECT", b"0"])),
        25 => (K_OK, cmd(&[b"SET", b"crlf", b"a\r\n-ERR x\r\n+OK\r\n"])),
        26 => (K_OK, cmd(&[b"GET", b"crlf"])),
        27 => (K_OK, cmd(&[b"SET", b"bigkey", &big])),
        28 => (K_OK, cmd(&[b"GET", b"bigkey"])),
        29 => (K_OK, cmd(&[b"LLEN", l])),
        30 => (K_OK, cmd(&[b"SET", b"bin", &[0u8, 255, 13, 10, 36, 45, 49]])),
        31 => (K_OK, cmd(&[b"EVAL", b"return {1,'two',{3}}", b"0"])),
        32 => (K_OK, b"PING\r\n".to_vec()),
        33 => (K_OK, cmd(&[b"ZSCORE", z, b"nomember"])),
        34 => (K_OK, cmd(&[b"LPOP", b"nolist"])),
        35 => (K_OK, cmd(&[b"HGET", h, b"nofield"])),
        // errors that must be replies
        36 => (K_ERR, cmd(&[b"FOOBAR"])),
        37 => (K_ERR, cmd(&[b"FOO\r\nBAR", b"x"])),
        38 => (K_ERR, cmd(&[b"GET"])),
        39 => (K_ERR, cmd(&[b"SET", b"k"])),
        40 => (K_ERR, cmd(&[b"LPUSH", b"strkey", b"x"])),
        41 => (K_ERR, cmd(&[b"GET", b"listkey"])),
        42 => (K_ERR, cmd(&[b"INCR", b"strkey"])),
        43 => (K_ERR, cmd(&[b"HINCRBY", b"hashkey", b"f", b"abc"])),
        44 => (K_ERR, cmd(&[b"LSET", b"listkey", b"99", b"x"])),
        45 => (K_ERR, cmd(&[b"RENAME", b"missing-src", b"x"])),
        46 => (K_ERR, cmd(&[b"SELECT", b"99"])),
        47 => (K_ERR, cmd(&[b"EXPIRE", b"strkey", b"abc"])),
        48 => (K_ERR, cmd(&[b"ZADD", b"zkey", b"abc", b"m"])),
        49 => (K_ERR, cmd(&[b"EXEC"])),
        50 => (K_ERR, cmd(&[b"EVALSHA", b"ffffffffffffffffffffffffffffffffffffffff", b"0"])),
        51 => (K_ERR, cmd(&[b"ZRANGE", b"strkey", b"0", b"-1"])),
        52 => (K_ERR, cmd(&[b"SADD", b"listkey", b"m"])),
        53 => (K_ERR, cmd(&[b"XADD", b"strkey", b"*", b"f", b"v"])),
        54 => (K_ERR, cmd(&[b"MGET"])),
        55 => (K_ERR, cmd(&[b"GETRANGE", b"strkey", b"a", b"b"])),
        56 => (K_ERR, cmd(&[b"unknown-\xff\x00cmd", b"a\r\nb"])),
        57 => (K_ERR, cmd(&[b"ZINCRBY", b"strkey", b"1", b"m"])),
        58 => (K_ERR, cmd(&[b"HGET", b"listkey", b"f"])),
        59 => (K_ERR, cmd(&[b"LRANGE", b"listkey", b"x", b"y"])),
        60 => (K_ERR, cmd(&[b"DECRBY", b"strkey", b"1"])),
        _ => (K_ANY, cmd(&[b"OBJECT", b"ENCODING", s])),
    }
}

fn violation(r: &mut Rng) -> Vec<u8> {
    match r.below(10) {
        0 => b"*abc\r\n".to_vec(),
        1 => b"*-5\r\n".to_vec(),
        2 => b"*1\r\n$-7\r\n".to_vec(),
        3 => b"*1\r\n$3\r\nabcde\r\n".to_vec(),
        4 => b"*2\r\n$3\r\nGET\r\n#t\r\n".to_vec(),
        5 => b"*1\r\n:1\r\n".to_vec(),
        6 => b"*1\r\n$x\r\nPING\r\n".to_vec(),
        7 => b"@garbage\r\n".to_vec(),
        8 => b"*1\r\n$4\r\nPINGxx".to_vec(),
        _ => b"*2\r\n+GET\r\n$1\r\nk\r\n".to_vec(),
    }
}

pub fn gen(seed: u64, _idx: u64, tier: Tier) -> Scenario {
    let mut r = Rng::new(seed);
    let mut sc = Scenario::new("C05", seed);
    let nconn = r.range(1, 3) as usize;
    // reply-side flow control: 0 = default buffers, prompt reader; else small socket buffers
    // a backlog of large replies behind a slow reader: hundreds of KiB to a few MiB of unsent output, written piecemeal
    let fat = r.chance(1, 10);
    sc.knobs.insert("fat".into(), fat as i64);
    let buf = if fat { *r.pick(&[4096i64, 16384]) } else { *r.pick(&[0i64, 0, 0, 4096, 16384]) };
    sc.knobs.insert("buf".into(), buf);
    // slow reader: the client reads at most this many bytes per server turn and does not read while the server is inside a turn
    let slow = if fat { *r.pick(&[16384i64, 65536]) } else if buf > 0 && r.chance(1, 2) { *r.pick(&[64i64, 512, 4096]) } else { 0 };
    sc.knobs.insert("slow".into(), slow);
    let syscall_faults = r.chance(1, 3);
    sc.knobs.insert("syscall_faults".into(), syscall_faults as i64);
    let mut style = r.below(6); // 0 whole, 1 random chunks, 2 one byte at a time, 3 frame aligned, 4 around 8192, 5 tiny random
    // deep pipelines of tiny commands: several hundred complete requests arrive in ONE 8192-byte read
    let dense = !fat && r.chance(1, 7);
    sc.knobs.insert("dense".into(), dense as i64);
    if dense || fat { style = *r.pick(&[0u64, 0, 4, 3]); }
    // fixture keys used by the error catalogue (never modified afterwards)
    sc.steps.push(Step::Connect { c: 9, inst: 0, buf: 0 });
    for a in [vec![b("SET"), b("strkey"), b("notanumber")], vec![b("RPUSH"), b("listkey"), b("a")], vec![b("HSET"), b("hashkey"), b("f"), b("v")], vec![b("ZADD"), b("zkey"), b("1"), b("m")]] {
        sc.steps.push(Step::Cmd { c: 9, a, split: vec![] });
    }
    let mut streams: Vec<Vec<u8>> = vec![Vec::new(); nconn];
    let mut bounds: Vec<Vec<usize>> = vec![Vec::new(); nconn];
    for c in 0..nconn {
        sc.steps.push(Step::Connect { c, inst: 0, buf: buf as usize });
        if fat {
            let v = vec![b'F'; *r.pick(&[30_000usize, 65_536, 70_000])];
            let bytes = cmd(&[b"SET", format!("fat{}", c).as_bytes(), &v]);
            sc.steps.push(Step::Ctl { name: "req".into(), n: (c as i64) * 100 + K_OK, a: vec![B(bytes.clone())] });
            streams[c].extend_from_slice(&bytes);
            bounds[c].push(streams[c].len());
        }
        let nreq = if fat { r.range(6, 24) } else if dense { *r.pick(&[257i64, 300, 513, 600, 1025, 2500]) } else { match tier { Tier::Quick => r.range(1, 60), Tier::Thorough => r.range(1, 200) } };
        let mut marker = 0;
        for i in 0..nreq {
            if !dense && !fat && r.chance(1, 25) {
                // a subscription taken and given up again inside the pipeline: its acknowledgements have their place in the reply order
                let (s1, s2) = if r.chance(1, 2) { ("SUBSCRIBE", "UNSUBSCRIBE") } else { ("PSUBSCRIBE", "PUNSUBSCRIBE") };
                let name = format!("chan{}", c);
                for v in [s1, s2] {
                    let bytes = cmd(&[v.as_bytes(), name.as_bytes()]);
                    sc.steps.push(Step::Ctl { name: "req".into(), n: (c as i64) * 100 + K_SUB, a: vec![B(bytes.clone())] });
                    streams[c].extend_from_slice(&bytes);
                    bounds[c].push(streams[c].len());
                }
            }
            let (kind, bytes) = if fat && !r.chance(1, 4) { (K_OK, cmd(&[b"GET", format!("fat{}", c).as_bytes()])) } else if dense {
                match r.below(8) {
                    0 => (K_OK, cmd(&[b"PING"])),
                    1 => (K_ERR, cmd(&[b"GET"])),
                    2 => (K_ERR, cmd(&[b"NOPE"])),
                    3 => (K_OK, cmd(&[b"GET", b"k"])),
                    _ => { marker += 1; let m = format!("{}{:x}", c, marker); (K_ECHO, cmd(&[b"ECHO", m.as_bytes()])) }
                }
            } else if r.chance(1, 3) { marker += 1; let m = format!("mark-{}-{}-{}", c, marker, r.below(1000)); (K_ECHO, cmd(&[b"ECHO", m.as_bytes()])) } else { catalogue(&mut r, c) };
            let mut a = vec![B(bytes.clone())];
            if kind == K_ECHO { let (R::Arr(v), _) = resp::parse(&bytes).unwrap() else { unreachable!() }; if let R::Bulk(m) = &v[1] { a.push(B(m.clone())); } }
            sc.steps.push(Step::Ctl { name: "req".into(), n: (c as i64) * 100 + kind, a });
            streams[c].extend_from_slice(&bytes);
            bounds[c].push(streams[c].len());
            let _ = i;
            if style == 4 && r.chance(1, 3) {
                // pad with one ECHO so that this request ends exactly on a multiple of the server's 8192-byte read size
                let len = streams[c].len();
                let target = ((len + 60) / 8192 + 1) * 8192;
                let fill = target - len;
                // "*2\r\n$4\r\nECHO\r\n$<n>\r\n<payload>\r\n": overhead = 14 + 1 + digits(n) + 2 + 2
                for digits in 1..6usize {
                    let overhead = 14 + 1 + digits + 2 + 2;
                    if fill > overhead { let n = fill - overhead; if n.to_string().len() == digits && n >= 12 {
                        marker += 1;
                        let mut m = format!("pad-{}-{}-", c, marker).into_bytes(); m.resize(n, b'p');
                        let bytes = cmd(&[b"ECHO", &m]);
                        if streams[c].len() + bytes.len() == target {
                            sc.steps.push(Step::Ctl { name: "req".into(), n: (c as i64) * 100 + K_ECHO, a: vec![B(bytes.clone()), B(m)] });
                            streams[c].extend_from_slice(&bytes);
                            bounds[c].push(streams[c].len());
                        }
                        break;
                    } }
                }
            }
        }
        if r.chance(1, 5) {
            let v = violation(&mut r);
            sc.steps.push(Step::Ctl { name: "req".into(), n: (c as i64) * 100 + K_PROTO, a: vec![B(v.clone())] });
            streams[c].extend_from_slice(&v);
            bounds[c].push(streams[c].len());
        }
    }
    // delivery schedule: interleave the connections' segments
    let mut pos = vec![0usize; nconn];
    loop {
        let live: Vec<usize> = (0..nconn).filter(|&c| pos[c] < streams[c].len()).collect();
        if live.is_empty() { break; }
        let c = *r.pick(&live);
        let rem = streams[c].len() - pos[c];
        let n = match style {
            0 => rem,
            1 => r.range(1, 600.min(rem as i64)) as usize,
            2 => 1,
            3 => { let nb = bounds[c].iter().copied().filter(|b| *b > pos[c]).nth(r.below(4) as usize).unwrap_or(streams[c].len()); nb - pos[c] }
            4 => { let to = ((pos[c] / 8192) + 1) * 8192; let d = (to as i64 + *r.pick(&[0i64, 0, 0, -1, 1, -2, 2])).max(pos[c] as i64 + 1) as usize; d.min(streams[c].len()) - pos[c] }
            _ => r.range(1, 7.min(rem as i64)) as usize,
        }.max(1).min(rem);
        // one-byte style on a long stream is capped: after 400 bytes deliver the rest in chunks
        let n = if style == 2 && pos[c] > 400 { rem.min(997) } else { n };
        // transient system-call outcomes on this connection's socket: an interrupted or spuriously empty
        // read / write, or one that transfers only a few bytes - none of them may change the reply stream
        if syscall_faults && r.chance(1, 6) {
            let fop = if r.chance(2, 3) { crate::world::Op::Recv } else { crate::world::Op::Send };
            let action = match r.below(4) { 0 => crate::world::Action::Errno(libc::EINTR), 1 => crate::world::Action::Errno(libc::EAGAIN), 2 => crate::world::Action::Short(1), _ => crate::world::Action::Short(*r.pick(&[2usize, 7, 100])) };
            sc.steps.push(Step::Arm { fop, conn: Some(c), class: None, nth: r.below(3), action, inst: 0 });
        }
        sc.steps.push(Step::Ctl { name: "flow".into(), n: (c as i64) * 100_000_000 + n as i64, a: vec![] });
        pos[c] += n;
        // the client stops sending and waits: everything delivered completely so far must be answered
        if r.chance(1, 5) || pos[c] % 8192 == 0 { sc.steps.push(Step::Ctl { name: "sync".into(), n: c as i64, a: vec![] }); }
    }
    sc.steps.push(Step::Ctl { name: "drain".into(), n: 0, a: vec![] });
    sc
}

struct Req { kind: i64, bytes: Vec<u8>, marker: Option<Vec<u8>> }

pub fn exec(sc: &Scenario) -> Outcome {
    let fixtures_ok = sc.steps.iter().filter(|s| matches!(s, Step::Cmd { c: 9, .. })).count() >= 4 && matches!(sc.steps.first(), Some(Step::Connect { c: 9, .. }));
    let mut h = H::new(sc);
    if let Err(e) = h.boot(&sc.cfg, "a") { return Outcome { verdict: "harness".into(), note: e, ..Default::default() }; }
    let slow = sc.knob("slow", 0);
    if slow > 0 { h.sim.auto_drain = false; }
    // collect declarations
    let mut reqs: BTreeMap<usize, Vec<Req>> = BTreeMap::new();
    for st in &sc.steps {
        if let Step::Ctl { name, n, a } = st { if name == "req" && !a.is_empty() {
            reqs.entry((*n / 100) as usize).or_default().push(Req { kind: *n % 100, bytes: a[0].0.clone(), marker: a.get(1).map(|m| m.0.clone()) });
        } }
    }
    let mut streams: BTreeMap<usize, Vec<u8>> = BTreeMap::new();
    for (c, v) in &reqs { let mut s = Vec::new(); for q in v { s.extend_from_slice(&q.bytes); } streams.insert(*c, s); }
    let mut pos: BTreeMap<usize, usize> = BTreeMap::new();
    let mut drained = false;
    for (i, st) in sc.steps.iter().enumerate() {
        h.step_no = i;
        if h.dead.is_some() { break; }
        match st {
            Step::Connect { c, inst, buf } => { h.connect(*c, *inst, *buf); }
            Step::Arm { fop, conn, nth, action, .. } => { if let Some(ci) = conn.and_then(|c| h.cl(c)) { let inst = h.inst; h.sim.arm(inst, *fop, Some(ci), None, *nth, *action); h.count("syscall_faults_armed", 1); } }
            Step::Cmd { c, a, split } => { if let Some(ci) = h.cl(*c) { let r = h.cmd(ci, &args_of(a), split); if r.reply.is_none() { h.violate("C05/fixture-no-reply".into(), show_cmd(&args_of(a))); } } }
            Step::Ctl { name, n, .. } if name == "flow" => {
                if slow > 0 { h.read_limit = Some(slow as usize); }
                let c = (*n / 100_000_000) as usize;
                let k = (*n % 100_000_000) as usize;
                if let (Some(ci), Some(s)) = (h.cl(c), streams.get(&c)) {
                    let p = *pos.get(&c).unwrap_or(&0);
                    let e = (p + k).min(s.len());
                    if e > p { let seg = s[p..e].to_vec(); h.send_bytes(ci, &seg, &[]); pos.insert(c, e); h.count("segments", 1); }
                    h.turn();
                }
            }
            Step::Ctl { name, n, .. } if name == "sync" => {
                let c = *n as usize;
                if let (Some(ci), Some(v)) = (h.cl(c), reqs.get(&c)) {
                    let p = *pos.get(&c).unwrap_or(&0);
                    // number of requests completely delivered so far
                    let mut off = 0usize; let mut complete = 0usize; let mut viol_seen = false;
                    for q in v { off += q.bytes.len(); if off <= p { if q.kind == K_PROTO { viol_seen = true; } complete += 1; } else { break; } }
                    // the server reads at most 8192 bytes and answers with bounded sends per turn
                    // (the budget counts loop turns in which this client received nothing at all: large replies through small
                    // socket buffers or to a slow reader take many turns, and every one of them makes progress)
                    let budget = 8 + p / 2048;
                    let mut turns = 0;
                    while (h.cs[ci].n_replies as usize) < complete && turns < budget && h.dead.is_none() && h.cs[ci].proto_err.is_none() {
                        let rx0 = h.sim.clients[ci].total_rx;
                        h.turn();
                        if h.sim.clients[ci].total_rx > rx0 { turns = 0; } else { turns += 1; }
                    }
                    h.count("sync_points", 1);
                    if (h.cs[ci].n_replies as usize) < complete && !viol_seen && h.cs[ci].proto_err.is_none() && !h.sim.clients[ci].eof {
                        let q = &v[h.cs[ci].n_replies as usize];
                        h.violate(format!("C05/reply-withheld/{}", req_name(&q.bytes)), format!("connection {}: {} requests ({} bytes) are completely delivered and the client waits, but only {} replies arrived and the client then received nothing for {} loop turns; first unanswered: `{}`", c, complete, p, h.cs[ci].n_replies, budget, resp::escape(&q.bytes[..q.bytes.len().min(60)])));
                    }
                }
            }
            Step::Ctl { name, .. } if name == "drain" => {
                drained = true;
                for (c, s) in &streams { if let Some(ci) = h.cl(*c) { let p = *pos.get(c).unwrap_or(&0); if p < s.len() { let seg = s[p..].to_vec(); h.send_bytes(ci, &seg, &[]); } } }
                for c in streams.keys() { pos.insert(*c, usize::MAX); }
                // liveness budget: all bytes are delivered; the client keeps reading; the server must finish
                let mut idle = 0;
                let budget = if slow > 0 { 20_000 } else { 400 };
                let mut last_rx: u64 = h.sim.clients.iter().map(|c| c.total_rx).sum();
                for _ in 0..budget {
                    match h.turn() {
                        TurnOutcome::Turn { io, .. } => {
                            let rx: u64 = h.sim.clients.iter().map(|c| c.total_rx).sum();
                            // idle = the server did no I/O, no client received a byte, nothing is waiting to be sent by a client
                            if io == 0 && rx == last_rx && h.cs.iter().all(|c| c.pending_tx.is_empty()) { idle += 1; if idle >= 6 { break; } } else { idle = 0; }
                            last_rx = rx;
                        }
                        _ => break,
                    }
                }
            }
            _ => {}
        }
    }
    // verdicts per connection (only once everything was delivered and the server given time to answer)
    for (c, v) in &reqs {
        if !drained { break; }
        let ci = match h.cl(*c) { Some(x) => x, None => continue };
        let n_expected = v.len();
        let got: Vec<R> = h.cs[ci].replies.iter().cloned().collect();
        h.count("requests", n_expected as u64);
        h.count("replies", got.len() as u64);
        if let Some(pe) = h.cs[ci].proto_err.clone() {
            // which request was being answered when the reply stream stopped being well-formed
            h.violate("C05/malformed-reply-stream".to_string(), format!("connection {}: after {} well-formed replies the reply bytes are not RESP: {}", c, got.len(), pe));
            continue;
        }
        let mut gi = 0;
        for (qi, q) in v.iter().enumerate() {
            let name = req_name(&q.bytes);
            if q.kind == K_PROTO {
                // an error reply must follow; the connection may be closed afterwards
                match got.get(gi) {
                    Some(r) if r.is_err() => { gi += 1; }
                    Some(r) => { h.violate(format!("C05/protocol-violation/not-an-error/{}", viol_name(&q.bytes)), format!("connection {}: protocol-violating bytes {} answered by {}", c, resp::escape(&q.bytes), r.short())); gi += 1; }
                    None => { h.violate(format!("C05/protocol-violation/silence/{}", viol_name(&q.bytes)), format!("connection {}: protocol-violating bytes {} got no reply at all (closed by server: {})", c, resp::escape(&q.bytes), h.sim.clients[ci].eof)); }
                }
                break;
            }
            match got.get(gi) {
                None => {
                    h.violate(format!("C05/missing-reply/{}", name), format!("connection {}: request #{} `{}` and {} later request(s) got no reply ({} replies for {} requests; closed by server: {})", c, qi, resp::escape(&q.bytes[..q.bytes.len().min(80)]), n_expected - qi - 1, got.len(), n_expected, h.sim.clients[ci].eof));
                    break;
                }
                Some(r) => {
                    let ok = match q.kind {
                        K_ECHO => matches!(r, R::Bulk(b) if Some(b) == q.marker.as_ref()),
                        // (the refusals of the catalogue rely on the fixture keys: a minimised scenario that has lost them proves nothing)
                        K_ERR => r.is_err() || !fixtures_ok,
                        K_OK => !r.is_err() || !fixtures_ok,
                        K_SUB => matches!(r, R::Arr(v) if v.len() == 3 && matches!(&v[0], R::Bulk(b) if b.ends_with(b"subscribe"))),
                        _ => true,
                    };
                    if !ok {
                        let kind = match q.kind { K_ECHO => "sentinel-mismatch", K_ERR => "expected-error", K_SUB => "expected-subscription-ack", _ => "unexpected-error" };
                        h.violate(format!("C05/{}/{}", kind, name), format!("connection {}: request #{} `{}` answered by {} (reply #{} of {})", c, qi, resp::escape(&q.bytes[..q.bytes.len().min(80)]), r.short(), gi, got.len()));
                        if q.kind == K_ECHO { break; } // framing is off from here on
                    }
                    gi += 1;
                }
            }
        }
        if v.iter().all(|q| q.kind != K_PROTO) && got.len() > n_expected {
            h.violate("C05/extra-reply".into(), format!("connection {}: {} replies for {} requests; first surplus: {}", c, got.len(), n_expected, got[n_expected].short()));
        }
    }
    h.health_violations("C05");
    h.finish(sc.seed)
}

fn req_name(bytes: &[u8]) -> String {
    match resp::parse(bytes) {
        Ok((R::Arr(v), _)) => match v.first() { Some(R::Bulk(b)) => { let s: String = String::from_utf8_lossy(b).chars().filter(|c| c.is_ascii_alphanumeric()).take(12).collect(); s.to_uppercase() } _ => "NONBULK".into() },
        _ => "INLINE".into(),
    }
}
fn viol_name(bytes: &[u8]) -> String { bytes.iter().take(6).map(|b| if b.is_ascii_alphanumeric() || b"*$-+:#@".contains(b) { *b as char } else { '_' }).collect() }

pub static DEF: CheckDef = CheckDef {
    id: "C05", level: "exploration", gen, exec,
    nontrivial: |o| o.counters.get("requests").copied().unwrap_or(0) >= 3 && o.counters.get("segments").copied().unwrap_or(0) >= 1,
    rule: "one run = 1-3 connections each pipelining 1-200 requests (in a seventh of the runs: 257-2500 tiny requests, so that several hundred complete requests arrive in one 8192-byte read; in a tenth: 6-24 requests most of which are answered with a 30-70 KB value, read by a client that takes 16-64 KiB per turn over 4-16 KiB socket buffers, so that hundreds of KiB to MiB of replies wait in the connection's write buffer and leave in pieces) from a catalogue of valid commands of every family, refused commands (unknown, wrong arity, wrong type, bad argument, missing key, CR/LF in command names and arguments, binary), unique ECHO sentinels, SUBSCRIBE / PSUBSCRIBE immediately followed by the matching unsubscribe (acknowledgements in their place), optionally ending in a protocol-violating frame; the request byte streams are delivered under one of six segmentation styles (whole, random chunks, one byte at a time, frame-aligned, around the 8192-byte read boundary, tiny chunks), interleaved between connections by the schedule stream, optionally over small socket buffers; oracle: the bytes received by each client, decoded by the independent RESP reader, are exactly one well-formed reply per request, in order, of the expected kind (error / non-error / exact sentinel), nothing surplus, an error after a protocol violation; non-trivial = at least 3 requests; distinct = distinct event-log hash; in a third of the runs single reads / writes on a connection's socket are additionally made to fail with EINTR or EAGAIN or to transfer only 1..100 bytes (fault injection at the libc boundary) - transient outcomes that must not change the reply stream",
    quick_budget_s: 40.0, thorough_budget_s: 900.0, quick_max_runs: 1_000_000, thorough_max_runs: 100_000_000, exhaustive: false, exhaustive_after: |_| 0,
    real: REAL_WHOLE_SERVER, stub: STUB_WHOLE_SERVER, assumptions: ASSUME_COMMON,
};
