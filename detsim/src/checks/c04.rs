//! C04 — sorted sets stay totally ordered and consistent under every update.
use super::seq::Seq;
use super::*;
use crate::harness::*;
use crate::scenario::*;

const SCORES: &[&str] = &["0", "-0", "1", "1", "2", "-1", "1.5", "1.0000000000000002", "0.1", "1e308", "-1e308", "1e-320", "inf", "+inf", "-inf", "3", "3", "2.5", "100", "-100",
    "9007199254740993", "1e3", ".5", "5."];
const BAD_SCORES: &[&str] = &["nan", "NaN", "-nan", "abc", "", "1,5", " 1", "1 ", "--1"];

fn score(r: &mut Rng) -> B { if r.chance(1, 12) { b(*r.pick(BAD_SCORES)) } else { b(*r.pick(SCORES)) } }
fn bound(r: &mut Rng) -> B {
    match r.below(10) { 0 => b("-inf"), 1 => b("+inf"), 2 => b("inf"), 3 => b(&format!("({}", r.pick(SCORES))), 4 => b(*r.pick(BAD_SCORES)), _ => b(*r.pick(SCORES)) }
}
fn rank(r: &mut Rng) -> B { if r.chance(1, 8) { b(*r.pick(&["9223372036854775807", "-9223372036854775808", "abc", "", "1.5"])) } else { b(&format!("{}", r.range(-9, 9))) } }

pub fn gen(seed: u64, _idx: u64, tier: Tier) -> Scenario {
    let mut r = Rng::new(seed);
    let mut sc = Scenario::new("C04", seed);
    // the same history may be run under a different entropy seed (skip-list tower shapes): replies must not depend on it
    sc.entropy = seed ^ r.below(4);
    sc.knobs.insert("preempt".into(), *r.pick(&[0, 0, 10]));
    sc.steps.push(Step::Connect { c: 0, inst: 0, buf: 0 });
    let keys: Vec<B> = vec![b("z1"), b("z2"), b("z3"), b("str")];
    let nm = *r.pick(&[4u64, 8, 16, 40]);
    let member = |r: &mut Rng| -> B { match r.below(nm + 2) { x if x == nm => b(""), x if x == nm + 1 => B(vec![0xff, 0, b'\n']), x => b(&format!("m{}", x)) } };
    sc.steps.push(Step::Cmd { c: 0, a: vec![b("SET"), b("str"), b("v")], split: vec![] });
    let n = match tier { Tier::Quick => r.range(30, 200), Tier::Thorough => r.range(30, 400) };
    for _ in 0..n {
        let k = if r.chance(1, 15) { r.pick(&keys).clone() } else { r.pick(&keys[0..2]).clone() };
        let a: Vec<B> = match r.weighted(&[22, 8, 7, 4, 3, 5, 6, 5, 6, 4, 4, 8, 4, 4, 2]) {
            0 => { let mut a = vec![b("ZADD"), k]; for _ in 0..r.range(1, 4) { a.push(score(&mut r)); a.push(member(&mut r)); } if r.chance(1, 15) { a.push(score(&mut r)); } a }
            1 => { let mut a = vec![b("ZREM"), k]; for _ in 0..r.range(1, 3) { a.push(member(&mut r)); } a }
            2 => vec![b("ZSCORE"), k, member(&mut r)],
            3 => vec![b("ZCARD"), k],
            4 => vec![b(*r.pick(&["ZRANK", "ZREVRANK"])), k, member(&mut r)],
            5 => vec![b(*r.pick(&["ZRANK", "ZREVRANK"])), k, member(&mut r)],
            6 => { let mut a = vec![b("ZRANGE"), k, rank(&mut r), rank(&mut r)]; if r.chance(1, 2) { a.push(b("WITHSCORES")); } a }
            7 => { let mut a = vec![b("ZREVRANGE"), k, rank(&mut r), rank(&mut r)]; if r.chance(1, 2) { a.push(b("WITHSCORES")); } a }
            8 => { let mut a = vec![b("ZRANGEBYSCORE"), k, bound(&mut r), bound(&mut r)]; if r.chance(1, 2) { a.push(b("WITHSCORES")); } a }
            9 => { let mut a = vec![b("ZREVRANGEBYSCORE"), k, bound(&mut r), bound(&mut r)]; if r.chance(1, 2) { a.push(b("WITHSCORES")); } a }
            10 => vec![b("ZCOUNT"), k, bound(&mut r), bound(&mut r)],
            11 => vec![b("ZINCRBY"), k, score(&mut r), member(&mut r)],
            12 => { let mut a = vec![b("ZPOPMIN"), k]; if r.chance(1, 2) { a.push(b(&format!("{}", r.range(-1, 4)))); } a }
            13 => { let mut a = vec![b("ZPOPMAX"), k]; if r.chance(1, 2) { a.push(b(&format!("{}", r.range(-1, 4)))); } a }
            _ => vec![b(*r.pick(&["TYPE", "EXISTS", "DEL"])), k],
        };
        sc.steps.push(Step::Cmd { c: 0, a, split: vec![] });
        // cross-consistency reads after writes: the full order with scores
        if r.chance(1, 6) { let kk = r.pick(&keys[0..2]).clone(); sc.steps.push(Step::Cmd { c: 0, a: vec![b("ZRANGE"), kk, b("0"), b("-1"), b("WITHSCORES")], split: vec![] }); }
    }
    sc
}

pub fn exec(sc: &Scenario) -> Outcome {
    let mut s = match Seq::new(sc, "C04") { Ok(s) => s, Err(o) => return o };
    for (i, st) in sc.steps.iter().enumerate() {
        s.h.step_no = i;
        if s.h.dead.is_some() { break; }
        s.run_step(st);
    }
    s.finish(sc.seed)
}

pub static DEF: CheckDef = CheckDef {
    id: "C04", level: "exploration", gen, exec,
    nontrivial: |o| o.counters.get("cmds").copied().unwrap_or(0) >= 30,
    rule: "one run = one seeded history of 30-400 sorted-set commands over 2 keys with member pools of 4-40 and scores drawn to collide (equal scores, re-scoring across neighbours, +-0, +-inf, inf + -inf via ZINCRBY, nan, denormals, 1-ulp differences, 1e308; multi-pair ZADD with a bad score in any pair), all read commands with rank/score bounds incl. reversed, out-of-range, exclusive and infinite ones; the skip-list tower shapes come from the per-run entropy seed; every reply is compared with the model (scores numerically), and after every command the real skip list is walked by the structural invariant checker (level 0 strictly ordered by (score, member), every level a subsequence of level 0, key index and length agree with the chain, no NaN stored) and its level-0 chain is compared with the model; non-trivial = at least 30 commands; distinct = distinct event-log hash",
    quick_budget_s: 40.0, thorough_budget_s: 900.0, quick_max_runs: 1_000_000, thorough_max_runs: 100_000_000, exhaustive: false, exhaustive_after: |_| 0,
    real: REAL_WHOLE_SERVER, stub: STUB_WHOLE_SERVER, assumptions: ASSUME_COMMON,
};
