//! Shared model-following executor: drives clients command by command, checks every reply against
//! the reference model at the exact virtual time the server executed it, compares the stored
//! dataset (side-effect-free accessor) with the model after every command, and re-synchronises
//! the model from the implementation after a mismatch so that one defect does not blind the run.
#![allow(dead_code)]

use crate::harness::*;
use crate::model::keyspace::*;
use crate::model::stream::{GroupM, PelE, StreamM};
use crate::resp::R;
use crate::scenario::*;
use crate::sim::*;
use ferrous::verif::{DumpEntry, DumpValue};
use std::collections::{BTreeMap, BTreeSet, VecDeque};

pub struct Seq {
    pub h: H,
    pub model: Model,
    pub prop: String,
    /// selected database per sim client
    pub dbsel: BTreeMap<usize, usize>,
    pub compare_dumps: bool,
    pub strict_ttl_dump: bool,
    pub cmds: u64,
    /// keys whose divergence is already reported and not yet repaired by a resync-proof change
    pub last_dump_ok: bool,
}

pub fn arg_flags(args: &[Vec<u8>]) -> String {
    let mut f: Vec<&str> = Vec::new();
    if args.iter().skip(1).any(|a| std::str::from_utf8(a).is_err()) { f.push("bin"); }
    if args.iter().skip(1).any(|a| a.contains(&b'\r') || a.contains(&b'\n')) { f.push("crlf"); }
    if args.iter().skip(1).any(|a| a.len() > 8192) { f.push("big"); }
    if args.iter().skip(2).any(|a| strict_i64(a).map_or(false, |v| v > i32::MAX as i64 || v < i32::MIN as i64)) { f.push("numedge"); }
    if args.iter().skip(2).any(|a| a.first() == Some(&b'-') && strict_i64(a).is_some()) { f.push("neg"); }
    if f.is_empty() { "-".into() } else { f.join("+") }
}

pub fn native_type(verb: &str) -> &'static str {
    match verb {
        "GET" | "SET" | "GETSET" | "SETNX" | "SETEX" | "PSETEX" | "APPEND" | "STRLEN" | "GETRANGE" | "SETRANGE" | "INCR" | "DECR" | "INCRBY" | "DECRBY" | "MGET" | "MSET" | "INCRBYFLOAT" => "string",
        "LPUSH" | "RPUSH" | "LPOP" | "RPOP" | "LLEN" | "LRANGE" | "LINDEX" | "LSET" | "LTRIM" | "LREM" | "BLPOP" | "BRPOP" | "LPUSHX" | "RPUSHX" | "LINSERT" => "list",
        "SADD" | "SREM" | "SMEMBERS" | "SISMEMBER" | "SCARD" | "SUNION" | "SINTER" | "SDIFF" | "SPOP" | "SRANDMEMBER" | "SSCAN" | "SMOVE" => "set",
        v if v.starts_with('H') => "hash",
        v if v.starts_with('Z') => "zset",
        v if v.starts_with('X') => "stream",
        _ => "",
    }
}

/// Arguments of a command that name keys.
pub fn key_args<'a>(verb: &str, args: &'a [Vec<u8>]) -> Vec<&'a Vec<u8>> {
    match verb {
        "MGET" | "DEL" | "EXISTS" | "SUNION" | "SINTER" | "SDIFF" | "WATCH" | "UNLINK" | "TOUCH" => args.iter().skip(1).collect(),
        "MSET" | "MSETNX" => args.iter().skip(1).step_by(2).collect(),
        "RENAME" | "RENAMENX" | "SMOVE" | "RPOPLPUSH" => args.iter().skip(1).take(2).collect(),
        "BLPOP" | "BRPOP" => { let n = args.len(); if n > 2 { args[1..n - 1].iter().collect() } else { vec![] } }
        _ => args.iter().skip(1).take(1).collect(),
    }
}

pub fn from_dump(entries: &[DumpEntry], now: u64) -> Db { from_dump_real(entries, now, 0) }

pub fn from_dump_real(entries: &[DumpEntry], now: u64, real_off: i64) -> Db {
    let mut db = Db::default();
    for e in entries {
        let val = match &e.value {
            DumpValue::String(s) => Val::Str(s.clone()),
            DumpValue::List(l) => { if l.is_empty() && e.ttl_ns.is_none() && e.index_ttl_ns.is_some() { continue; } Val::List(l.iter().cloned().collect::<VecDeque<_>>()) }
            DumpValue::Set(s) => Val::Set(s.iter().cloned().collect::<BTreeSet<_>>()),
            DumpValue::Hash(h) => Val::Hash(h.iter().cloned().collect::<BTreeMap<_, _>>()),
            DumpValue::ZSet(z) => Val::ZSet(z.iter().cloned().collect::<BTreeMap<_, _>>()),
            DumpValue::ZSetBroken(_) => Val::ZSet(BTreeMap::new()),
            DumpValue::Stream { entries, last_id, groups, .. } => {
                let mut s = StreamM::default();
                for (id, f) in entries { s.entries.insert(*id, f.clone()); }
                s.last_id = *last_id;
                s.max_ever = (*last_id).max(s.entries.keys().next_back().copied().unwrap_or((0, 0)));
                let real_ns = now as i128 + real_off as i128;
                for g in groups {
                    let mut gm = GroupM::default();
                    if let Ok(st) = &g.state {
                        gm.last_delivered = st.last_delivered;
                        for (id, c, n, age) in &st.pending { gm.pel.insert(*id, PelE { consumer: c.clone().into_bytes(), count: *n as u64, last_delivery: real_ns - *age }); }
                        for (c, _) in &st.consumers { gm.consumers.insert(c.clone().into_bytes()); }
                    }
                    s.groups.insert(g.name.clone().into_bytes(), gm);
                }
                Val::Stream(s)
            }
        };
        let deadline = e.ttl_ns.map(|t| abs_deadline(now, t));
        db.map.insert(e.key.clone(), Entry { val, deadline });
    }
    db
}

/// absolute virtual deadline from a relative one, saturating at both ends
pub fn abs_deadline(now: u64, rel: i128) -> u64 {
    let v = now as i128 + rel;
    if v < 0 { 0 } else if v > u64::MAX as i128 { u64::MAX } else { v as u64 }
}

fn val_of_dump(v: &DumpValue) -> Option<Val> {
    Some(match v {
        DumpValue::String(s) => Val::Str(s.clone()),
        DumpValue::List(l) => Val::List(l.iter().cloned().collect()),
        DumpValue::Set(s) => Val::Set(s.iter().cloned().collect()),
        DumpValue::Hash(h) => Val::Hash(h.iter().cloned().collect()),
        DumpValue::ZSet(z) => Val::ZSet(z.iter().cloned().collect()),
        DumpValue::ZSetBroken(_) => return None,
        DumpValue::Stream { .. } => return None,
    })
}

impl Seq {
    pub fn new(sc: &Scenario, prop: &str) -> Result<Seq, Outcome> {
        let mut h = H::new(sc);
        h.sim.preempt_permille = sc.knob("preempt", 0) as u32;
        if let Err(e) = h.boot(&sc.cfg, "a") { return Err(Outcome { verdict: "harness".into(), note: format!("boot: {}", e), ..Default::default() }); }
        Ok(Seq { h, model: Model::new(), prop: prop.to_string(), dbsel: BTreeMap::new(), compare_dumps: true, strict_ttl_dump: true, cmds: 0, last_dump_ok: true })
    }

    pub fn resync(&mut self) {
        let now = self.h.sim.now();
        let storage = self.h.sim.instances[self.h.inst].storage.clone();
        let off = self.h.sim.real_off();
        for db in 0..16 { self.model.dbs[db] = from_dump_real(&storage.verif_dump(db), now, off); }
        self.h.count("resyncs", 1);
    }

    /// Handle the generic steps; returns false if the step is check-specific.
    pub fn run_step(&mut self, st: &Step) -> bool {
        match st {
            Step::Connect { c, inst, buf } => { let i = self.h.connect(*c, *inst, *buf); self.dbsel.insert(i, 0); true }
            Step::Cmd { c, a, split } => { self.do_cmd(*c, &args_of(a), split); true }
            Step::Adv { ns } => { self.h.sim.advance(*ns); if self.compare_dumps && self.h.dead.is_none() { self.compare_dump("ADVANCE", "-", "-", &[]); } true }
            Step::RealStep { ns } => { self.h.sim.step_real(*ns); true }
            Step::Turns { n } => { for _ in 0..*n { self.h.turn(); } true }
            Step::Close { c, half } => { if let Some(i) = self.h.cl(*c) { self.h.sim.close(i, if *half { CloseHow::HalfClose } else { CloseHow::Close }); } true }
            Step::Ctl { name, n, .. } => self.run_ctl(name, *n),
            _ => false,
        }
    }

    /// Sweeper scheduling controls shared by several checks.
    pub fn run_ctl(&mut self, name: &str, _n: i64) -> bool {
        let inst = self.h.inst;
        let sw = self.h.sim.instances[inst].sweeper_tid;
        match name {
            // take the sweeper out of eager scheduling for the rest of the run
            "sweeper_manual" => { if !self.h.sim.bg_manual.contains(&sw) { self.h.sim.bg_manual.push(sw); } true }
            "sweeper_eager" => { self.h.sim.bg_manual.retain(|t| *t != sw); self.h.sim.run_bg(inst); self.after_bg(); true }
            // if the sweeper is due, run it until it has collected the expired keys of one shard
            // (parked between its read-lock scan and its write-lock deletions) or finished the pass
            "sweep_hold" => {
                if self.h.sim.is_runnable(sw) {
                    let mut guard = 0;
                    loop {
                        guard += 1;
                        match self.h.sim.step(sw, M_SWEEP_COLLECTED, 0, 0) {
                            Some(crate::world::Reason::Hook { site, .. }) if site == ferrous::verif::site::SWEEP_COLLECTED => { self.h.count("probe_sweeper_held_between_collect_and_delete", 1); break; }
                            Some(crate::world::Reason::Sleep) | Some(crate::world::Reason::Exit) | None => break,
                            _ => { if guard > 10_000 || !self.h.sim.is_runnable(sw) { break; } }
                        }
                    }
                }
                true
            }
            // let the sweeper finish whatever it is doing (to its next sleep)
            "sweep_release" => {
                let mut guard = 0;
                while self.h.sim.is_runnable(sw) && guard < 100_000 { guard += 1; if self.h.sim.step(sw, 0, 0, 0).is_none() { break; } }
                self.after_bg();
                true
            }
            _ => false,
        }
    }
    fn after_bg(&mut self) { if self.compare_dumps && self.h.dead.is_none() { self.compare_dump("SWEEP", "-", "-", &[]); } }

    fn ensure_client(&mut self, c: usize) -> usize {
        match self.h.cl(c) {
            Some(i) if !self.h.sim.clients[i].closed && !self.h.sim.clients[i].eof => i,
            _ => { let i = self.h.connect(c, self.h.inst, 0); self.dbsel.insert(i, 0); i }
        }
    }

    /// Execute one command synchronously and check it against the model.
    pub fn do_cmd(&mut self, c: usize, args: &[Vec<u8>], split: &[u32]) -> Option<R> {
        if self.h.dead.is_some() || args.is_empty() { return None; }
        let i = self.ensure_client(c);
        let db = *self.dbsel.get(&i).unwrap_or(&0);
        let verb = String::from_utf8_lossy(&args[0]).to_uppercase();
        // is some key named by this command stored although its own deadline has passed (expired, unswept)?
        let pre_expired = {
            let storage = self.h.sim.instances[self.h.inst].storage.clone();
            let d = storage.verif_dump(db);
            let keyspace_wide = matches!(verb.as_str(), "KEYS" | "DBSIZE" | "RANDOMKEY" | "SCAN" | "FLUSHDB" | "FLUSHALL" | "SAVE" | "BGSAVE");
            d.iter().any(|e| e.ttl_ns.map_or(false, |t| t < 0) && (keyspace_wide || key_args(&verb, args).iter().any(|a| &e.key == *a)))
        };
        let res = self.h.cmd(i, args, split);
        self.cmds += 1;
        self.h.count("cmds", 1);
        let now = res.exec_mono.unwrap_or_else(|| self.h.sim.now());
        let key = args.get(1).cloned().unwrap_or_default();
        let expired_unswept = pre_expired || self.model.dbs[db].map.get(&key).map_or(false, |e| e.deadline.map_or(false, |d| d < now));
        if expired_unswept { self.h.count("probe_cmd_on_expired_unswept", 1); }
        let has_ttl = self.model.dbs[db].map.get(&key).map_or(false, |e| e.deadline.map_or(false, |d| d > now));
        let tie = self.model.tie(db, now);
        self.model.purge(db, now);
        let ktype = self.model.type_of(db, &key);
        let native = native_type(&verb);
        let overwrites = matches!(verb.as_str(), "SET" | "SETEX" | "PSETEX" | "MSET");
        let wrongtype = native != "" && !overwrites && key_args(&verb, args).iter().any(|a| { let t = self.model.type_of(db, a); t != "none" && t != native });
        let _ = has_ttl;
        let cond = if expired_unswept { "expired" } else if wrongtype { "wrongtype" } else if args.len() > 1 && args[1].is_empty() { "emptykey" } else { "-" };
        let flags = cond.to_string();
        let aflags = arg_flags(args);
        let reply = match res.reply {
            None => {
                self.h.note(format!("c{} {} -> NO REPLY (eof={})", c, show_cmd(args), self.h.sim.clients[i].eof));
                if self.h.dead.is_none() {
                    self.h.violate(format!("{}/no-reply/{}/{}", self.prop, verb, flags),
                        format!("no reply to `{}` (key type {}, argument shape {}, connection closed by server: {})", show_cmd(args), ktype, aflags, self.h.sim.clients[i].eof));
                    // the connection is unusable now: drop it, a later command reconnects
                    self.h.sim.close(i, CloseHow::Close);
                    self.resync();
                }
                return None;
            }
            Some(r) => r,
        };
        self.h.note(format!("c{} db{} t={} {} -> {}", c, db, now, show_cmd(args), reply.short()));
        if verb == "SELECT" {
            let valid = args.len() == 2 && strict_i64(&args[1]).map_or(false, |v| (0..16).contains(&v));
            if valid { if reply == R::ok() { self.dbsel.insert(i, strict_i64(&args[1]).unwrap() as usize); } else { self.h.violate(format!("{}/reply/SELECT/-/exp=status,got={}", self.prop, reply.kind()), format!("SELECT {} -> {}", show_cmd(&args[1..]), reply.short())); } }
            else if !reply.is_err() {
                self.h.violate(format!("{}/reply/SELECT/invalid-index/exp=error,got={}", self.prop, reply.kind()), format!("`{}` -> {} (expected an error, selection unchanged)", show_cmd(args), reply.short()));
                // follow the implementation if it really switched
                if let Some(v) = args.get(1).and_then(|a| std::str::from_utf8(a).ok()).and_then(|s| s.trim().parse::<i64>().ok()) { if (0..16).contains(&v) { self.dbsel.insert(i, v as usize); } }
            }
            return Some(reply);
        }
        self.model.real_off = self.h.sim.real_off();
        self.model.soft_resync = false;
        match self.model.apply(db, args, now, &reply) {
            Ok(true) => {
                if self.model.soft_resync { self.model.soft_resync = false; self.h.count("version_dependent_outcome_followed", 1); self.resync(); }
                else if self.compare_dumps { self.compare_dump(&verb, ktype, &flags, args); }
            }
            Ok(false) => { self.h.count("unmodelled", 1); self.resync(); }
            Err(m) => {
                if tie { self.h.count("deadline_tie_dont_care", 1); }
                if m.kind != "tie" && !tie {
                    self.h.violate(format!("{}/reply/{}/{}/{}", self.prop, verb, flags, m.kind),
                        format!("`{}` on {} key -> {} ; model expects {}", show_cmd(args), ktype, reply.short(), m.expected));
                }
                self.resync();
            }
        }
        if self.cmds % 16 == 0 { let sh = self.model.state_hash(); self.h.state_hashes.push(sh); }
        Some(reply)
    }

    /// Compare the implementation's stored dataset with the model (all 16 databases).
    pub fn compare_dump(&mut self, verb: &str, ktype: &str, flags: &str, args: &[Vec<u8>]) {
        let now = self.h.sim.now();
        let storage = self.h.sim.instances[self.h.inst].storage.clone();
        let mut bad: Option<(String, String)> = None;
        let mut tie_resync = false;
        'outer: for db in 0..16 {
            let dump = storage.verif_dump(db);
            let md = &self.model.dbs[db];
            let mut seen: BTreeSet<&Vec<u8>> = BTreeSet::new();
            for e in &dump {
                if let DumpValue::ZSetBroken(msg) = &e.value { bad = Some(("skiplist-invariant".into(), format!("db{} key {}: {}", db, esc(&e.key), msg))); break 'outer; }
                if let DumpValue::List(l) = &e.value { if l.is_empty() && e.ttl_ns.is_none() && e.index_ttl_ns.is_some() { self.h.count("probe_index_entry_without_key", 1); continue; } }
                if e.ttl_ns != e.index_ttl_ns { self.h.count("probe_index_disagrees_with_stored_deadline", 1); }
                seen.insert(&e.key);
                let m = md.map.get(&e.key);
                let m_live = m.map_or(false, |m| m.deadline.map_or(true, |d| now <= d));
                let impl_expired = e.ttl_ns.map_or(false, |t| t <= 0);
                match (m, m_live) {
                    (Some(m), true) => {
                        if m.deadline == Some(now) {
                            // the model's deadline is this very instant (don't-care): whatever is stored is accepted
                            let same = val_of_dump(&e.value).map_or(false, |v| v == m.val) && e.ttl_ns.map(|t| abs_deadline(now, t)) == m.deadline;
                            if !same { tie_resync = true; }
                            continue;
                        }
                        if let Some(v) = val_of_dump(&e.value) {
                            if v != m.val { bad = Some((format!("value-differs/{}", m.val.type_name()), format!("db{} key {}: stored {:?}, model {:?}", db, esc(&e.key), trunc(&format!("{:?}", e.value)), trunc(&format!("{:?}", m.val))))); break 'outer; }
                        } else if let (DumpValue::Stream { .. }, Val::Stream(sm)) = (&e.value, &m.val) {
                            if let Some((k, d)) = stream_diff(&e.value, sm) { bad = Some((k, format!("db{} key {}: {}", db, esc(&e.key), d))); break 'outer; }
                        } else { bad = Some((format!("type-differs/{}", m.val.type_name()), format!("db{} key {}", db, esc(&e.key)))); break 'outer; }
                        let impl_dl = e.ttl_ns.map(|t| abs_deadline(now, t));
                        let far = now.saturating_add(100_000_000_000_000_000);
                        let both_far = impl_dl.map_or(false, |d| d > far) && m.deadline.map_or(false, |d| d > far);
                        if impl_dl != m.deadline && !both_far {
                            let k = match (impl_dl, m.deadline) { (None, Some(_)) => "ttl-lost", (Some(_), None) => "ttl-spurious", _ => "ttl-differs" };
                            bad = Some((format!("{}/{}", k, m.val.type_name()), format!("db{} key {}: stored deadline {:?}, model {:?} (now {})", db, esc(&e.key), impl_dl, m.deadline, now)));
                            break 'outer;
                        }
                    }
                    _ => {
                        // not (or no longer) in the model: legitimate only as expired-but-unswept garbage
                        if !impl_expired { bad = Some(("extra-key".into(), format!("db{} key {} stored ({}), absent in the model", db, esc(&e.key), trunc(&format!("{:?}", e.value))))); break 'outer; }
                    }
                }
            }
            for (k, m) in md.map.iter() {
                let live = m.deadline.map_or(true, |d| now < d); // at now == deadline the sweeper may or may not have deleted it
                if live && !seen.contains(k) { bad = Some((format!("missing-key/{}", m.val.type_name()), format!("db{} key {} ({}) absent from storage, model holds {}", db, esc(k), m.val.type_name(), trunc(&format!("{:?}", m.val))))); break 'outer; }
            }
        }
        if tie_resync && bad.is_none() { self.h.count("deadline_tie_dont_care", 1); self.resync(); return; }
        if let Some((kind, detail)) = bad {
            // a broken skip list stays broken: attribute it to the structure, not to whichever verb came last
            let class = if kind == "skiplist-invariant" { format!("{}/skiplist-invariant", self.prop) } else if kind == "group-indexes-disagree" { format!("{}/group-indexes-disagree", self.prop) } else { format!("{}/dump/{}/{}/{}", self.prop, verb, flags, kind) };
            self.h.violate(class, format!("after `{}` (key type before: {}): {}", show_cmd(args), ktype, detail));
            self.resync();
        }
    }

    pub fn finish(mut self, seed: u64) -> Outcome {
        let p = self.prop.clone();
        self.h.health_violations(&p);
        let sh = self.model.state_hash();
        self.h.state_hashes.push(sh);
        self.h.finish(seed)
    }
}

/// Compare one stored stream (entry log, duplicated counters, consumer groups) with the model.
pub fn stream_diff(v: &DumpValue, sm: &StreamM) -> Option<(String, String)> {
    let (entries, last_id, length_counter, last_id_counter, groups) = match v { DumpValue::Stream { entries, last_id, length_counter, last_id_counter, groups } => (entries, last_id, length_counter, last_id_counter, groups), _ => return None };
    let me: Vec<((u64, u64), Vec<(Vec<u8>, Vec<u8>)>)> = sm.entries.iter().map(|(k, f)| { let mut f = f.clone(); f.sort(); (*k, f) }).collect();
    if &me != entries {
        let ids_same = me.len() == entries.len() && me.iter().zip(entries.iter()).all(|(a, b)| a.0 == b.0);
        return Some((if ids_same { "stream-fields-differ".into() } else { "value-differs/stream".into() }, format!("stored {} entries {:?}, model {} entries {:?}", entries.len(), entries.iter().map(|e| e.0).take(6).collect::<Vec<_>>(), me.len(), me.iter().map(|e| e.0).take(6).collect::<Vec<_>>())));
    }
    if entries.windows(2).any(|w| w[0].0 >= w[1].0) { return Some(("stream-not-sorted".into(), "stored entries are not in strictly increasing id order".into())); }
    if *last_id != sm.last_id { return Some(("stream-last-id".into(), format!("stored last id {:?}, model {:?}", last_id, sm.last_id))); }
    if *length_counter != entries.len() { return Some(("stream-length-counter".into(), format!("length counter {} but {} entries stored", length_counter, entries.len()))); }
    if last_id_counter != last_id { return Some(("stream-last-id-counter".into(), format!("lock-free last id {:?} but the entry log records {:?}", last_id_counter, last_id))); }
    for g in groups {
        let name = g.name.clone().into_bytes();
        let st = match &g.state { Err(e) => return Some(("group-indexes-disagree".into(), format!("group {}: {}", g.name, e))), Ok(st) => st };
        let gm = match sm.groups.get(&name) { None => return Some(("group-extra".into(), format!("group {} stored, absent in the model", g.name))), Some(gm) => gm };
        let got: Vec<((u64, u64), Vec<u8>)> = st.pending.iter().map(|(id, c, _, _)| (*id, c.clone().into_bytes())).collect();
        let want: Vec<((u64, u64), Vec<u8>)> = gm.pel.iter().map(|(id, e)| (*id, e.consumer.clone())).collect();
        if got != want { return Some(("group-pending-differs".into(), format!("group {}: stored pending {:?}, model {:?}", g.name, got.iter().take(6).map(|(i, c)| (*i, esc(c))).collect::<Vec<_>>(), want.iter().take(6).map(|(i, c)| (*i, esc(c))).collect::<Vec<_>>()))); }
        let (a, b) = (st.last_delivered.min(gm.last_delivered), st.last_delivered.max(gm.last_delivered));
        if a != b {
            // two cursors are equivalent when no present or future entry can lie between them
            let equivalent = b <= sm.last_id && !sm.entries.keys().any(|k| *k > a && *k <= b);
            if !equivalent { return Some(("group-cursor-differs".into(), format!("group {}: stored cursor {:?}, model {:?}", g.name, st.last_delivered, gm.last_delivered))); }
        }
    }
    for name in sm.groups.keys() { if !groups.iter().any(|g| g.name.as_bytes() == name.as_slice()) { return Some(("group-missing".into(), format!("group {} absent from storage", esc(name)))); } }
    None
}

fn trunc(s: &str) -> String { if s.len() > 160 { format!("{}...", &s[..160]) } else { s.to_string() } }
