//! C20 — the RESP codec round-trips and is independent of how bytes are chunked.
//! In-process: drives ferrous' `RespParser` / `serialize_resp_frame` directly; the "schedule" is the
//! chunking of the byte stream. No server is booted.
use super::*;
use crate::alloc_seam;
use crate::harness::*;
use crate::resp::{self, R};
use crate::scenario::*;
use ferrous::protocol::{serialize_resp_frame, RespParser};
use ferrous::RespFrame;
use std::sync::Arc;

const ALPHABET: &[u8] = b"*$+-:_#,%~019\r\na PING";
const SLICE: u64 = 2500;

fn nth_string(mut i: u64) -> Vec<u8> {
    // enumeration of all strings over ALPHABET by length then lexicographic index
    let k = ALPHABET.len() as u64;
    let mut len = 1u32;
    loop { let n = k.pow(len); if i < n { break; } i -= n; len += 1; }
    let mut v = vec![0u8; len as usize];
    for p in (0..len as usize).rev() { v[p] = ALPHABET[(i % k) as usize]; i /= k; }
    v
}
fn total_upto(len: u32) -> u64 { let k = ALPHABET.len() as u64; (1..=len).map(|l| k.pow(l)).sum() }

/// text of a double: fixed special cases, or any finite bit pattern (all magnitudes, subnormals) in its
/// shortest round-trip decimal form
fn gen_double(r: &mut Rng) -> Vec<u8> {
    if r.chance(1, 3) { return r.pick(&["1.5", "0", "-0", "inf", "-inf", "1e300", "0.1", "3", "5e-324", "2.2250738585072014e-308", "0.30000000000000004", "1e-10", "-0.000123456789012345", "1.7976931348623157e308", "123456789.12345679"]).as_bytes().to_vec(); }
    loop {
        let f = f64::from_bits(r.next());
        if f.is_finite() { return format!("{:?}", f).into_bytes(); }
    }
}

fn gen_tree(r: &mut Rng, depth: u32) -> R {
    let leaf = depth >= 5 || r.chance(2, 3);
    let bytes = |r: &mut Rng| -> Vec<u8> { match r.below(6) { 0 => vec![], 1 => { let n = r.below(20) as usize; r.bytes(n) } 2 => b"\r\n".to_vec(), 3 => b"PING".to_vec(), 4 => { let n = r.below(300) as usize; vec![b'x'; n] } _ => b"hello".to_vec() } };
    let line = |r: &mut Rng| -> Vec<u8> { let n = r.below(12) as usize; (0..n).map(|_| *r.pick(b"abc XYZ019+-:$*")).collect() };
    if leaf {
        match r.below(9) {
            0 => R::Simple(line(r)), 1 => R::Err(line(r)), 2 => R::Int(*r.pick(&[0i64, 1, -1, i64::MAX, i64::MIN, 42])), 3 => R::Bulk(bytes(r)), 4 => R::Nil, 5 => R::NilArr,
            6 => R::Null3, 7 => R::Bool(r.chance(1, 2)), _ => R::Double(gen_double(r)),
        }
    } else {
        let n = r.below(4) as usize;
        match r.below(3) {
            0 => R::Arr((0..n).map(|_| gen_tree(r, depth + 1)).collect()),
            1 => R::Set((0..n).map(|_| gen_tree(r, depth + 1)).collect()),
            _ => R::Map((0..n).map(|_| (gen_tree(r, depth + 1), gen_tree(r, depth + 1))).collect()),
        }
    }
}

pub fn gen(seed: u64, idx: u64, tier: Tier) -> Scenario {
    let mut r = Rng::new(seed);
    let mut sc = Scenario::new("C20", seed);
    let maxlen = match tier { Tier::Quick => 4, Tier::Thorough => 5 };
    let total = total_upto(maxlen);
    let nslices = (total + SLICE - 1) / SLICE;
    if idx < nslices {
        // exhaustive part: slice idx of the enumeration of all strings up to maxlen
        for i in idx * SLICE..((idx + 1) * SLICE).min(total) { sc.steps.push(Step::Ctl { name: "s".into(), n: 0, a: vec![B(nth_string(i))] }); }
        sc.knobs.insert("exhaustive_slice".into(), idx as i64);
    } else {
        for _ in 0..600 {
            match if r.chance(1, 60) { 9 } else { r.below(4) } {
                9 => { // a long well-formed stream: many frames, some of them large, 4-70 KB in all (buffer-size effects)
                    let mut bytes = Vec::new();
                    let target = *r.pick(&[4_200usize, 9_000, 17_000, 70_000]);
                    while bytes.len() < target {
                        if r.chance(1, 6) { resp::encode(&R::Bulk(vec![b'L'; *r.pick(&[1_000usize, 4_096, 5_000, 16_384])]), &mut bytes); }
                        else { resp::encode(&gen_tree(&mut r, 0), &mut bytes); }
                    }
                    sc.steps.push(Step::Ctl { name: "t".into(), n: 0, a: vec![B(bytes)] });
                }
                0 => { // frame tree -> our own encoding (well-formed stream), 1-3 frames
                    let mut bytes = Vec::new();
                    for _ in 0..r.range(1, 3) { resp::encode(&gen_tree(&mut r, 0), &mut bytes); }
                    sc.steps.push(Step::Ctl { name: "t".into(), n: 0, a: vec![B(bytes)] });
                }
                1 => { // random string over the alphabet up to 64
                    let n = r.range(5, 64) as usize;
                    sc.steps.push(Step::Ctl { name: "s".into(), n: 0, a: vec![B((0..n).map(|_| *r.pick(ALPHABET)).collect())] });
                }
                2 => { // mutated valid stream
                    let mut bytes = Vec::new();
                    for _ in 0..r.range(1, 3) { resp::encode(&gen_tree(&mut r, 0), &mut bytes); }
                    for _ in 0..r.range(1, 3) { if bytes.is_empty() { break; } let p = r.below(bytes.len() as u64) as usize; match r.below(3) { 0 => { bytes[p] = *r.pick(ALPHABET); } 1 => { bytes.remove(p); } _ => { bytes.insert(p, *r.pick(ALPHABET)); } } }
                    sc.steps.push(Step::Ctl { name: "s".into(), n: 0, a: vec![B(bytes)] });
                }
                _ => { // declared lengths
                    let hdr = *r.pick(&["*", "$", "%", "~"]);
                    let n = *r.pick(&["2147483647", "9223372036854775807", "18446744073709551615", "4294967296", "-2", "100000000", "1000000"]);
                    let mut bytes = format!("{}{}\r\n", hdr, n).into_bytes();
                    if r.chance(1, 2) { bytes.extend_from_slice(b"$1\r\na\r\n"); }
                    sc.steps.push(Step::Ctl { name: "s".into(), n: 0, a: vec![B(bytes)] });
                }
            }
        }
    }
    sc
}

#[derive(Debug, PartialEq, Clone)]
enum Item { Frame(String), Error }

/// Feed `bytes` in the given chunks; collect the sequence of frames up to and including the first error.
fn run_stream(bytes: &[u8], chunks: &[usize]) -> Vec<Item> {
    let mut p = RespParser::new();
    let mut out = Vec::new();
    let mut pos = 0;
    for &n in chunks {
        let e = (pos + n).min(bytes.len());
        p.feed(&bytes[pos..e]);
        pos = e;
        loop {
            match p.parse() {
                Ok(Some(f)) => { out.push(Item::Frame(format!("{:?}", f))); if out.len() > 10_000 { return out; } }
                Ok(None) => break,
                Err(_) => { out.push(Item::Error); return out; }
            }
        }
    }
    out
}

fn to_frame(r: &R) -> RespFrame {
    match r {
        R::Simple(s) => RespFrame::SimpleString(Arc::new(s.clone())),
        R::Err(s) => RespFrame::Error(Arc::new(s.clone())),
        R::Int(i) => RespFrame::Integer(*i),
        R::Bulk(b) => RespFrame::BulkString(Some(Arc::new(b.clone()))),
        R::Nil => RespFrame::BulkString(None),
        R::NilArr => RespFrame::Array(None),
        R::Arr(v) => RespFrame::Array(Some(v.iter().map(to_frame).collect())),
        R::Null3 => RespFrame::Null,
        R::Bool(b) => RespFrame::Boolean(*b),
        R::Double(d) => RespFrame::Double(crate::model::keyspace::parse_f64_reply(d).unwrap_or(0.0)),
        R::Map(v) => RespFrame::Map(v.iter().map(|(k, x)| (to_frame(k), to_frame(x))).collect()),
        R::Set(v) => RespFrame::Set(v.iter().map(to_frame).collect()),
    }
}

fn shape(bytes: &[u8]) -> String { bytes.iter().take(3).map(|b| if b.is_ascii_graphic() { *b as char } else if *b == b'\r' { 'r' } else if *b == b'\n' { 'n' } else { '_' }).collect() }

pub fn exec(sc: &Scenario) -> Outcome {
    let mut out = Outcome { verdict: "ok".into(), seed: sc.seed, ..Default::default() };
    let mut violations: Vec<Violation> = Vec::new();
    let mut add = |class: String, detail: String, step: usize, v: &mut Vec<Violation>| { if v.len() < 32 && !v.iter().any(|x| x.class == class) { v.push(Violation { class, detail, step }); } };
    let panics = std::sync::Arc::new(std::sync::Mutex::new(Vec::<String>::new()));
    let pc = panics.clone();
    std::panic::set_hook(Box::new(move |info| { pc.lock().unwrap().push(format!("{}", info)); }));
    let mut r = Rng::new(sc.seed ^ 0xC20);
    let (mut cases, mut chunkings, mut frames_seen, mut errors_seen) = (0u64, 0u64, 0u64, 0u64);
    let mut h: u64 = 0xcbf29ce484222325;
    for (si, st) in sc.steps.iter().enumerate() {
        let (name, bytes) = match st { Step::Ctl { name, a, .. } if !a.is_empty() => (name.as_str(), a[0].0.clone()), _ => continue };
        cases += 1;
        let res = std::panic::catch_unwind(|| {
            let mut local: Vec<(String, String)> = Vec::new();
            alloc_seam::reset_max();
            let whole = run_stream(&bytes, &[bytes.len()]);
            let mx = alloc_seam::max();
            if mx > bytes.len() + 256 * 1024 { local.push((format!("C20/alloc-by-declared-length/{}", shape(&bytes)), format!("feeding {} bytes {} made the parser request {} bytes in one allocation", bytes.len(), resp::escape(&bytes), mx))); }
            // chunkings: every single split point (short strings) / some split points, one byte at a time, random multi-splits
            let mut plans: Vec<Vec<usize>> = Vec::new();
            if bytes.len() <= 12 { for k in 1..bytes.len() { plans.push(vec![k, bytes.len() - k]); } } else { for _ in 0..4 { let k = 1 + (r_next(&bytes, plans.len()) % (bytes.len() as u64 - 1)) as usize; plans.push(vec![k, bytes.len() - k]); } }
            plans.push(vec![1; bytes.len()]);
            if bytes.len() > 3 { let a = 1 + (r_next(&bytes, 7) % (bytes.len() as u64 / 2)) as usize; let b2 = 1 + (r_next(&bytes, 9) % ((bytes.len() - a) as u64)) as usize; plans.push(vec![a, b2, bytes.len() - a - b2]); }
            let mut nch = 0u64;
            for plan in &plans {
                nch += 1;
                let got = run_stream(&bytes, plan);
                if got != whole {
                    let kind = if got.len() != whole.len() { "count" } else if got.iter().zip(whole.iter()).any(|(a, b)| (*a == Item::Error) != (*b == Item::Error)) { "frame-vs-error" } else { "different-frames" };
                    local.push((format!("C20/chunking/{}/{}", kind, shape(&bytes)), format!("stream {} fed whole gives {:?}, fed in chunks {:?} gives {:?}", resp::escape(&bytes), trunc_items(&whole), plan.iter().take(8).collect::<Vec<_>>(), trunc_items(&got))));
                    break;
                }
            }
            // round trip for well-formed trees
            if name == "t" {
                let mut pos = 0;
                while pos < bytes.len() {
                    let (rr, n) = match resp::parse(&bytes[pos..]) { Ok(x) => x, Err(_) => break };
                    pos += n;
                    let f = to_frame(&rr);
                    let mut ser = Vec::new();
                    if serialize_resp_frame(&f, &mut ser).is_err() { local.push((format!("C20/roundtrip/serialize-error/{}", rr.kind()), format!("{:?}", f))); continue; }
                    let mut with_sentinel = ser.clone();
                    with_sentinel.extend_from_slice(b":424242\r\n");
                    let mut p = RespParser::new();
                    p.feed(&with_sentinel);
                    let first = p.parse();
                    let second = p.parse();
                    let same = match &first { Ok(Some(g)) => format!("{:?}", g) == format!("{:?}", f), _ => false };
                    if !same { local.push((format!("C20/roundtrip/differs/{}", rr.kind()), format!("serialize({:?}) = {} parses back as {:?}", f, resp::escape(&ser), first.as_ref().map(|x| x.as_ref().map(|g| format!("{:?}", g)))))); }
                    else if !matches!(second, Ok(Some(RespFrame::Integer(424242)))) { local.push((format!("C20/roundtrip/consumed-wrong/{}", rr.kind()), format!("after parsing serialize({:?}) the next frame is not the sentinel: {:?}", f, second.map(|x| x.map(|g| format!("{:?}", g)))))); }
                }
            }
            (local, whole, nch)
        });
        match res {
            Ok((local, whole, nch)) => {
                chunkings += nch;
                for it in &whole { match it { Item::Frame(s) => { frames_seen += 1; fnv(&mut h, s.as_bytes()); } Item::Error => { errors_seen += 1; fnv(&mut h, b"E"); } } }
                for (c, d) in local { add(c, d, si, &mut violations); }
            }
            Err(_) => {
                let msg = panics.lock().unwrap().last().cloned().unwrap_or_default();
                add(format!("C20/panic/{}", panic_location(&msg)), format!("parser/serializer panicked on {}: {}", resp::escape(&bytes), msg.replace('\n', " ")), si, &mut violations);
            }
        }
        if cases % 64 == 0 { out.state_hashes.push(h); }
    }
    out.counters.insert("cases".into(), cases);
    out.counters.insert("chunkings".into(), chunkings);
    out.counters.insert("frames_parsed".into(), frames_seen);
    out.counters.insert("errors_reported".into(), errors_seen);
    out.hash = h ^ sc.seed;
    out.sched_hash = h;
    if !violations.is_empty() { out.verdict = "violation".into(); }
    out.violations = violations;
    let _ = &mut r;
    out
}

fn r_next(bytes: &[u8], salt: usize) -> u64 { let mut h: u64 = 0x9E3779B97F4A7C15 ^ salt as u64; fnv(&mut h, bytes); h >> 7 }
fn trunc_items(v: &[Item]) -> String { let s = format!("{:?}", v.iter().take(4).collect::<Vec<_>>()); if s.len() > 200 { format!("{}...", &s[..200]) } else { s } }

pub static DEF: CheckDef = CheckDef {
    id: "C20", level: "exploration", gen, exec,
    nontrivial: |o| o.counters.get("cases").copied().unwrap_or(0) >= 100 && o.counters.get("frames_parsed").copied().unwrap_or(0) + o.counters.get("errors_reported").copied().unwrap_or(0) >= 10,
    rule: "the schedule of this property is the chunking of a byte stream into parser feeds. Run indices 0..N enumerate ALL strings over the 21-symbol protocol alphabet {* $ + - : _ # , % ~ 0 1 9 CR LF a space P I N G} up to length 4 (quick) / 5 (thorough) in slices of 2500; later runs draw 600 cases each: (now and then a long well-formed stream of 4-70 KB with bulk strings of 1-16 KB, for effects of buffer sizes;) frame trees of every RESP2/RESP3 type (depth <= 6, empty/binary payloads, both null forms) encoded by the harness' own encoder, random alphabet strings up to 64 bytes, mutated valid streams, absurd declared lengths. Every stream is fed whole, at every single split point (short strings) or sampled split points, one byte at a time and in random 3-way splits; the sequence of (frame | error) results up to the first error must be identical; well-formed trees must satisfy parse(serialize(f)) = f consuming exactly the bytes (a sentinel frame must follow); no call may panic or request more than bytes-fed + 256 KiB in one allocation (allocator seam). non-trivial run = at least 100 cases producing at least 10 frames/errors; distinct = distinct hash over all parse results of the run. exhaustive=true only when the run budget covered every slice of the short-string enumeration",
    quick_budget_s: 40.0, thorough_budget_s: 900.0, quick_max_runs: 1_000_000, thorough_max_runs: 100_000_000, exhaustive: false, exhaustive_after: |t| { let l = match t { Tier::Quick => 4, Tier::Thorough => 5 }; (total_upto(l) + SLICE - 1) / SLICE },
    real: &["ferrous::protocol::RespParser (feed/parse), serialize_resp_frame, RespFrame"],
    stub: &["none: no clock, thread or I/O is involved; the chunking of the stream is the only schedule"],
    assumptions: &["simple strings and errors contain no CR/LF (not representable in RESP)", "sampling beyond the exhaustively enumerated short strings"],
};
