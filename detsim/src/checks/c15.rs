//! C15 — streams are append-only logs with strictly increasing IDs and exact ranges.
use super::seq::Seq;
use super::*;
use crate::harness::*;
use crate::model::keyspace::Val;
use crate::scenario::*;

pub const ID_POOL: &[&str] = &[
    "0-0", "0-1", "1-0", "3-5", "5-0", "5-1", "5-2", "5-18446744073709551615", "6-0", "9-9",
    "1699999999999-0", "1700000000000-0", "1700000000001-0", "1700000000002-1", "1700000000005-3", "1700000001000-0", "1700000001000-18446744073709551615",
    "1700000001001-0", "18446744073709551615-0", "18446744073709551615-18446744073709551614", "18446744073709551615-18446744073709551615",
];
const BAD_IDS: &[&str] = &["abc", "1-2-3", "18446744073709551616-0", "5-18446744073709551616", "-1-0", "", "5-", "1.5-0"];

/// `@id:<key>:<index>:<delta>` resolves, when the step executes, to the id of the index-th present
/// entry of that stream in the model, moved by delta (−1, 0, +1) in id space.
pub fn dyn_id(key: &str, idx: u64, delta: i64) -> B { b(&format!("@id:{}:{}:{}", key, idx, delta)) }

pub fn resolve(s: &Seq, db: usize, a: &[B]) -> Vec<Vec<u8>> {
    a.iter().map(|x| {
        let t = String::from_utf8_lossy(&x.0).to_string();
        if let Some(rest) = t.strip_prefix("@id:") {
            let p: Vec<&str> = rest.split(':').collect();
            if p.len() == 3 {
                let (idx, delta) = (p[1].parse::<usize>().unwrap_or(0), p[2].parse::<i64>().unwrap_or(0));
                let ids: Vec<(u64, u64)> = match s.model.dbs[db].map.get(p[0].as_bytes()) { Some(e) => match &e.val { Val::Stream(st) => st.entries.keys().copied().collect(), _ => vec![] }, None => vec![] };
                let id = if ids.is_empty() { (0, 1) } else { ids[idx % ids.len()] };
                return format_moved(id, delta);
            }
        }
        // `@pel:<key>:<group>:<index>:<delta>`: the index-th pending id of that group in the model
        if let Some(rest) = t.strip_prefix("@pel:") {
            let p: Vec<&str> = rest.split(':').collect();
            if p.len() == 4 {
                let (idx, delta) = (p[2].parse::<usize>().unwrap_or(0), p[3].parse::<i64>().unwrap_or(0));
                let ids: Vec<(u64, u64)> = match s.model.dbs[db].map.get(p[0].as_bytes()) { Some(e) => match &e.val { Val::Stream(st) => st.groups.get(p[1].as_bytes()).map_or(vec![], |g| g.pel.keys().copied().collect()), _ => vec![] }, None => vec![] };
                let id = if ids.is_empty() { (0, 1) } else { ids[idx % ids.len()] };
                return format_moved(id, delta);
            }
        }
        x.0.clone()
    }).collect()
}

fn format_moved(id: (u64, u64), delta: i64) -> Vec<u8> {
    let id = match delta {
        d if d < 0 => if id.1 > 0 { (id.0, id.1 - 1) } else if id.0 > 0 { (id.0 - 1, u64::MAX) } else { (0, 0) },
        0 => id,
        _ => if id.1 < u64::MAX { (id.0, id.1 + 1) } else if id.0 < u64::MAX { (id.0 + 1, 0) } else { id },
    };
    format!("{}-{}", id.0, id.1).into_bytes()
}
pub fn dyn_pel(key: &str, group: &str, idx: u64, delta: i64) -> B { b(&format!("@pel:{}:{}:{}:{}", key, group, idx, delta)) }

pub fn fields(r: &mut Rng) -> Vec<B> {
    let names = ["f", "g", "h", "temp", ""];
    let vals: Vec<B> = vec![b("1"), b("v"), b(""), B(vec![0, 0xff, b'\r', b'\n']), b("a longer value with spaces"), b("-3")];
    let k = r.range(1, 3) as usize;
    let mut out = Vec::new();
    let start = r.below(5) as usize;
    for i in 0..k { out.push(b(names[(start + i) % names.len()])); out.push(r.pick(&vals).clone()); }
    // rarely: the same field name twice in one entry
    if r.chance(1, 40) { let f = out[0].clone(); out.push(f); out.push(b("again")); }
    out
}

/// field list without a repeated field name
pub fn fields_unique(r: &mut Rng) -> Vec<B> { let mut f = fields(r); if f.len() >= 4 && f[f.len() - 2] == f[0] { f.truncate(f.len() - 2); } f }

pub fn time_step(r: &mut Rng, sc: &mut Scenario) {
    match r.weighted(&[6, 6, 4, 2, 2, 1]) {
        0 => sc.steps.push(Step::Adv { ns: *r.pick(&[100_000u64, 300_000, 999_999]) }),
        1 => sc.steps.push(Step::Adv { ns: 1_000_000 }),
        2 => sc.steps.push(Step::Adv { ns: *r.pick(&[2_000_000u64, 5_000_000, 50_000_000]) }),
        3 => sc.steps.push(Step::RealStep { ns: -*r.pick(&[1_000_000i64, 3_000_000, 10_000_000_000]) }),
        4 => sc.steps.push(Step::RealStep { ns: *r.pick(&[1_000_000i64, 500_000_000, 3_600_000_000_000]) }),
        _ => sc.steps.push(Step::Adv { ns: 1_000_000_000 }),
    }
}

pub fn gen(seed: u64, _idx: u64, tier: Tier) -> Scenario {
    let mut r = Rng::new(seed);
    let mut sc = Scenario::new("C15", seed);
    sc.knobs.insert("preempt".into(), *r.pick(&[0, 0, 10, 100]));
    sc.steps.push(Step::Connect { c: 0, inst: 0, buf: 0 });
    let skeys = ["s1", "s2", "s3"];
    let n = match tier { Tier::Quick => r.range(15, 120), Tier::Thorough => r.range(15, 300) };
    sc.steps.push(Step::Cmd { c: 0, a: vec![b("SET"), b("str"), b("v")], split: vec![] });
    // per-run flavour: mostly automatic ids, mostly explicit ids, or mixed
    let flavour = r.below(3);
    for _ in 0..n {
        let key = if r.chance(1, 14) { *r.pick(&["str", "missing"]) } else { *r.pick(&skeys) };
        let k = b(key);
        let pool_id = |r: &mut Rng| -> B { if r.chance(1, 20) { b(*r.pick(BAD_IDS)) } else { b(*r.pick(ID_POOL)) } };
        let bound = |r: &mut Rng, key: &str| -> B {
            match r.weighted(&[3, 3, 6, 8]) { 0 => b("-"), 1 => b("+"), 2 => pool_id(r), _ => dyn_id(key, r.below(64), r.range(-1, 1)) }
        };
        let count = |r: &mut Rng, a: &mut Vec<B>| { if r.chance(2, 5) { a.push(b("COUNT")); a.push(b(*r.pick(&["1", "2", "3", "5", "100", "1", "2", "0", "-1", "x"]))); } };
        let auto_w = match flavour { 0 => 30, 1 => 8, _ => 18 };
        let expl_w = match flavour { 0 => 6, 1 => 26, _ => 14 };
        let mut dynamic = false;
        let a: Vec<B> = match r.weighted(&[auto_w, expl_w, 5, 14, 9, 9, 8, 5, 2, 12, 1]) {
            0 => { let mut a = vec![b("XADD"), k, b("*")]; a.extend(fields(&mut r)); a }
            1 => { let id = if r.chance(1, 3) { dynamic = true; dyn_id(key, r.below(64), r.range(-1, 1)) } else { pool_id(&mut r) }; let mut a = vec![b("XADD"), k, id]; a.extend(fields(&mut r)); a }
            2 => vec![b("XLEN"), k],
            3 => { dynamic = true; let mut a = vec![b("XRANGE"), k, bound(&mut r, key), bound(&mut r, key)]; count(&mut r, &mut a); a }
            4 => { dynamic = true; let mut a = vec![b("XREVRANGE"), k, bound(&mut r, key), bound(&mut r, key)]; count(&mut r, &mut a); a }
            5 => {
                dynamic = true;
                let mut a = vec![b("XREAD")];
                if r.chance(2, 5) { a.push(b("COUNT")); a.push(b(*r.pick(&["1", "2", "5", "100"]))); }
                a.push(b("STREAMS"));
                let nk = r.range(1, 2) as usize;
                let ks: Vec<&str> = (0..nk).map(|_| if r.chance(1, 12) { "missing" } else { *r.pick(&skeys) }).collect();
                for kk in &ks { a.push(b(kk)); }
                for kk in &ks { let id = match r.weighted(&[3, 3, 4, 8]) { 0 => b("$"), 1 => b("0-0"), 2 => pool_id(&mut r), _ => dyn_id(kk, r.below(64), r.range(-1, 1)) }; a.push(id); }
                a
            }
            6 => { dynamic = true; let mut a = vec![b("XDEL"), k]; for _ in 0..r.range(1, 3) { let id = if r.chance(1, 4) { pool_id(&mut r) } else { dyn_id(key, r.below(64), if r.chance(1, 6) { 1 } else { 0 }) }; a.push(id); } a }
            7 => { let mut a = vec![b("XTRIM"), k, b("MAXLEN")]; if r.chance(1, 4) { a.push(b(*r.pick(&["=", "~"]))); } a.push(b(*r.pick(&["0", "1", "2", "3", "5", "100", "-1", "x"]))); a }
            8 => vec![b(*r.pick(&["DEL", "TYPE", "EXISTS"])), k],
            9 => { time_step(&mut r, &mut sc); continue; }
            _ => { let v = *r.pick(&["XADD", "XLEN", "XRANGE", "XREVRANGE", "XDEL", "XREAD"]); let mut a = vec![b(v)]; for _ in 0..r.below(3) { a.push(b(*r.pick(&skeys))); } a }
        };
        if dynamic { sc.steps.push(Step::Ctl { name: "dyn".into(), n: 0, a }); } else { sc.steps.push(Step::Cmd { c: 0, a, split: vec![] }); }
    }
    sc
}

pub fn exec(sc: &Scenario) -> Outcome { exec_as(sc, "C15") }

pub fn exec_as(sc: &Scenario, prop: &str) -> Outcome {
    let mut s = match Seq::new(sc, prop) { Ok(s) => s, Err(o) => return o };
    for (i, st) in sc.steps.iter().enumerate() {
        s.h.step_no = i;
        if s.h.dead.is_some() { break; }
        match st {
            Step::Ctl { name, n, a } if name == "dyn" => {
                let c = *n as usize;
                let db = s.h.cl(c).and_then(|i| s.dbsel.get(&i).copied()).unwrap_or(0);
                let args = resolve(&s, db, a);
                let verb = String::from_utf8_lossy(&args[0]).to_uppercase();
                s.h.count(&format!("dyn_{}", verb), 1);
                s.do_cmd(c, &args, &[]);
            }
            _ => { s.run_step(st); }
        }
    }
    s.finish(sc.seed)
}

pub static DEF: CheckDef = CheckDef {
    id: "C15", level: "exploration", gen, exec,
    nontrivial: |o| o.counters.get("cmds").copied().unwrap_or(0) >= 15,
    rule: "one run = one seeded history of 15-300 stream commands on three streams plus a string and a missing key: XADD with * and with explicit ids (small, at/around the virtual wall clock, far ahead of it, at the u64 bounds, equal to / just below / just above stored ids, malformed), bursts within one virtual millisecond, virtual clock steps of 0.1 ms to 1 h and realtime clock jumps backwards and forwards, XDEL (present, absent, repeated ids), XTRIM MAXLEN (exact and ~, 0 to beyond the length), XLEN, XRANGE/XREVRANGE/XREAD with bounds -, +, $, pool ids and ids resolved at execution time to stored ids and their immediate neighbours in id space, with and without COUNT (incl. 0, negative, non-integer), on empty, emptied, missing and wrong-type keys; every reply is compared with an ordered-map model (an automatic id must exceed every id ever added to that stream; field order within an entry is free), and after every command the stored entry log, its recorded last id and the duplicated lock-free length / last-id counters are compared with the model; non-trivial = at least 15 commands; distinct = distinct event-log hash",
    quick_budget_s: 40.0, thorough_budget_s: 900.0, quick_max_runs: 1_000_000, thorough_max_runs: 100_000_000, exhaustive: false, exhaustive_after: |_| 0,
    real: REAL_WHOLE_SERVER, stub: STUB_WHOLE_SERVER, assumptions: ASSUME_COMMON,
};
