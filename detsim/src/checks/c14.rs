//! C14 — Pub/Sub delivers each message exactly once per matching subscription.
use super::multi::upper;
use super::*;
use crate::harness::*;
use crate::model::keyspace::glob_match;
use crate::resp::{self, R};
use crate::scenario::*;
use crate::sim::*;
use crate::world::g;
use std::collections::{BTreeMap, VecDeque};

type Bytes = Vec<u8>;

const CHANNELS: &[&[u8]] = &[b"news", b"news.tech", b"news.sport", b"a", b"ab", b"b", b"h[e]llo", b"\xff\x00bin", b"x*y", b"", b"job:7:d:done", b"aab"];
const PATTERNS: &[&[u8]] = &[b"*", b"news.*", b"n?ws", b"[a-c]", b"[^a]*", b"a*", b"*b", b"h\\[e\\]llo", b"news*", b"x\\*y", b"job:*:done", b"*ab", b"?", b"\xff*"];

struct Sub { sim: usize, channels: Vec<Bytes>, patterns: Vec<Bytes>, expected: VecDeque<(u64, R)>, inflight: VecDeque<(Vec<Bytes>, u64, u64)>, closed_at: Option<u64>, publisher: bool, received: Vec<R> }

pub fn gen(seed: u64, _idx: u64, tier: Tier) -> Scenario {
    let mut r = Rng::new(seed);
    let mut sc = Scenario::new("C14", seed);
    let nsub = r.range(1, 4) as usize;
    let npub = r.range(1, 2) as usize;
    let nch = r.range(2, 6) as usize;
    let np = r.range(1, 6) as usize;
    let chans: Vec<&[u8]> = (0..nch).map(|_| *r.pick(CHANNELS)).collect();
    let pats: Vec<&[u8]> = (0..np).map(|_| *r.pick(PATTERNS)).collect();
    // flow control on the push path: small socket buffers, messages larger than them, and transient
    // outcomes (EINTR / EAGAIN / short transfer) of the server's reads and writes on a subscriber's socket
    let flow = r.chance(1, 3);
    sc.knobs.insert("flow".into(), flow as i64);
    let buf = if flow { *r.pick(&[4096usize, 4096, 16384]) } else { 0 };
    for c in 0..nsub + npub { sc.steps.push(Step::Connect { c, inst: 0, buf: if c < nsub { buf } else { 0 } }); }
    let mut uniq = 0u64;
    let n = match tier { Tier::Quick => r.range(8, 60), Tier::Thorough => r.range(8, 120) };
    let mut closed = vec![false; nsub];
    for _ in 0..n {
        match r.weighted(&[16, 12, 7, 7, 3, 3, 30, 12, 2]) {
            0 => { let c = r.below(nsub as u64) as usize; if closed[c] { continue; } let mut a = vec![b("SUBSCRIBE")]; for _ in 0..r.range(1, 3) { a.push(B(r.pick(&chans).to_vec())); } sc.steps.push(Step::Send { c, a, split: vec![] }); }
            1 => { let c = r.below(nsub as u64) as usize; if closed[c] { continue; } let mut a = vec![b("PSUBSCRIBE")]; for _ in 0..r.range(1, 2) { a.push(B(r.pick(&pats).to_vec())); } sc.steps.push(Step::Send { c, a, split: vec![] }); }
            2 => { let c = r.below(nsub as u64) as usize; if closed[c] { continue; } let mut a = vec![b("UNSUBSCRIBE")]; for _ in 0..r.range(1, 2) { a.push(B(r.pick(&chans).to_vec())); } sc.steps.push(Step::Send { c, a, split: vec![] }); }
            3 => { let c = r.below(nsub as u64) as usize; if closed[c] { continue; } let mut a = vec![b("PUNSUBSCRIBE")]; for _ in 0..r.range(1, 2) { a.push(B(r.pick(&pats).to_vec())); } sc.steps.push(Step::Send { c, a, split: vec![] }); }
            4 => { let c = r.below(nsub as u64) as usize; if closed[c] { continue; } sc.steps.push(Step::Send { c, a: vec![b("UNSUBSCRIBE")], split: vec![] }); }
            5 => { let c = r.below(nsub as u64) as usize; if closed[c] { continue; } sc.steps.push(Step::Send { c, a: vec![b("PUNSUBSCRIBE")], split: vec![] }); }
            6 => { let p = nsub + r.below(npub as u64) as usize; uniq += 1; let mut payload = format!("msg-{}-", uniq).into_bytes(); match r.below(4) { 0 => payload.extend_from_slice(&[0, 255, 13, 10]), 1 => payload.extend_from_slice(b"\r\n+OK\r\n"), 2 => {} _ => payload.extend(vec![b'z'; r.below(200) as usize]) }
                   if flow && r.chance(1, 2) { let n = *r.pick(&[900usize, 3000, 4096, 6000, 20000]); payload.resize(payload.len() + n, b'p'); }
                   if flow && r.chance(1, 4) {
                       let fop = if r.chance(3, 4) { crate::world::Op::Send } else { crate::world::Op::Recv };
                       let action = match r.below(4) { 0 => crate::world::Action::Errno(libc::EINTR), 1 => crate::world::Action::Errno(libc::EAGAIN), 2 => crate::world::Action::Short(1), _ => crate::world::Action::Short(*r.pick(&[2usize, 7, 100, 1000])) };
                       sc.steps.push(Step::Arm { fop, conn: Some(r.below(nsub as u64) as usize), class: None, nth: r.below(3), action, inst: 0 });
                   }
                   sc.steps.push(Step::Send { c: p, a: vec![b("PUBLISH"), B(r.pick(&chans).to_vec()), B(payload)], split: vec![] }); }
            7 => sc.steps.push(Step::Turns { n: r.range(1, 2) as u32 }),
            _ => { let c = r.below(nsub as u64) as usize; if nsub > 1 && !closed[c] { closed[c] = true; sc.steps.push(Step::Close { c, half: false }); } }
        }
    }
    sc.steps.push(Step::Turns { n: 4 });
    sc
}

fn frame(parts: &[&[u8]], n: Option<i64>) -> R {
    let mut v: Vec<R> = parts.iter().map(|p| R::Bulk(p.to_vec())).collect();
    if let Some(n) = n { v.push(R::Int(n)); }
    R::Arr(v)
}

pub fn exec(sc: &Scenario) -> Outcome {
    let mut h = H::new(sc);
    if let Err(e) = h.boot(&sc.cfg, "a") { return Outcome { verdict: "harness".into(), note: e, ..Default::default() }; }
    let mut cl: BTreeMap<usize, Sub> = BTreeMap::new();
    let mut turn_no = 0u64;
    let mut group = 0u64;
    let mut tag = 0u64;
    let mut mismatch = false;
    let mut reconcile = |h: &mut H, cl: &mut BTreeMap<usize, Sub>, turn_no: u64, group: &mut u64, mismatch: &mut bool| {
        // requests executed in this turn, in the server's read order
        let mut ready: Vec<(u64, u64, usize)> = Vec::new();
        for (c, s) in cl.iter() {
            let conn = h.sim.clients[s.sim].conn;
            let log = &g().conns[conn];
            for (_, end, _) in s.inflight.iter() { if *end <= log.consumed { let rec = log.recvs.iter().find(|r| r.upto >= *end).copied().unwrap_or_default(); ready.push((rec.seq, *end, *c)); } }
        }
        ready.sort();
        for (_, _, c) in ready {
            let (args, _, _) = cl.get_mut(&c).unwrap().inflight.pop_front().unwrap();
            let verb = upper(&args[0]);
            *group += 1;
            let gid = *group;
            h.count("cmds", 1);
            match verb.as_str() {
                "SUBSCRIBE" | "PSUBSCRIBE" => {
                    for ch in &args[1..] {
                        let s = cl.get_mut(&c).unwrap();
                        let list = if verb == "SUBSCRIBE" { &mut s.channels } else { &mut s.patterns };
                        if !list.contains(ch) { list.push(ch.clone()); }
                        let count = (s.channels.len() + s.patterns.len()) as i64;
                        *group += 1; // acknowledgements are strictly ordered
                        s.expected.push_back((*group, frame(&[verb.to_lowercase().as_bytes(), ch], Some(count))));
                    }
                }
                "UNSUBSCRIBE" | "PUNSUBSCRIBE" => {
                    let s = cl.get_mut(&c).unwrap();
                    let names: Vec<Bytes> = if args.len() > 1 { args[1..].to_vec() } else if verb == "UNSUBSCRIBE" { s.channels.clone() } else { s.patterns.clone() };
                    if names.is_empty() {
                        let count = (s.channels.len() + s.patterns.len()) as i64;
                        *group += 1;
                        s.expected.push_back((*group, R::Arr(vec![R::Bulk(verb.to_lowercase().into_bytes()), R::Nil, R::Int(count)])));
                    }
                    let all_form = args.len() == 1;
                    if all_form { *group += 1; }
                    for ch in names {
                        let list = if verb == "UNSUBSCRIBE" { &mut s.channels } else { &mut s.patterns };
                        list.retain(|x| *x != ch);
                        let count = (s.channels.len() + s.patterns.len()) as i64;
                        // the acknowledgements of the no-argument form may name the subscriptions in any order
                        // (the counts still go down one by one): one group, compared names-as-multiset + counts-in-order
                        if !all_form { *group += 1; }
                        s.expected.push_back((*group, frame(&[verb.to_lowercase().as_bytes(), &ch], Some(count))));
                    }
                }
                "PUBLISH" => {
                    let (ch, msg) = (args[1].clone(), args[2].clone());
                    let mut definite = 0i64;
                    let mut maybe = 0i64;
                    let ids: Vec<usize> = cl.keys().copied().collect();
                    for sid in ids {
                        let s = cl.get_mut(&sid).unwrap();
                        if s.publisher { continue; }
                        let mut n = 0i64;
                        let mut frames = Vec::new();
                        if s.channels.contains(&ch) { n += 1; frames.push(frame(&[b"message", &ch, &msg], None)); }
                        for p in s.patterns.clone() { if glob_match(&p, &ch) { n += 1; frames.push(frame(&[b"pmessage", &p, &ch, &msg], None)); } }
                        match s.closed_at {
                            None => { definite += n; for f in frames { s.expected.push_back((gid, f)); } }
                            // a subscriber that just went away may or may not have been noticed by the server yet
                            Some(t) if turn_no <= t + 3 => { maybe += n; }
                            Some(_) => {}
                        }
                    }
                    if n_deliveries_expected(definite, maybe).is_some() { h.count("publishes_with_receivers", 1); }
                    let p = cl.get_mut(&c).unwrap();
                    p.expected.push_back((gid, R::Int(definite)));
                    if maybe > 0 { p.expected.back_mut().unwrap().1 = R::Arr(vec![R::Int(definite), R::Int(definite + maybe)]); } // range marker for publishers
                }
                _ => {}
            }
        }
        // compare what has arrived so far, group by group
        for (c, s) in cl.iter_mut() {
            if s.closed_at.is_some() { continue; }
            while let Some(r) = h.cs[s.sim].replies.pop_front() { s.received.push(r); }
            loop {
                let gid = match s.expected.front() { Some((g, _)) => *g, None => break };
                let n = s.expected.iter().take_while(|(g, _)| *g == gid).count();
                if s.received.len() < n { break; }
                let exp: Vec<R> = s.expected.drain(..n).map(|(_, r)| r).collect();
                let got: Vec<R> = s.received.drain(..n).collect();
                let ok = if s.publisher { match (&exp[0], &got[0]) { (R::Arr(rg), R::Int(x)) if rg.len() == 2 => matches!((&rg[0], &rg[1]), (R::Int(lo), R::Int(hi)) if x >= lo && x <= hi), (e, gt) => e == gt } }
                         else {
                             let is_unsub_all = exp.len() > 1 && exp.iter().all(|r| matches!(r, R::Arr(v) if v.len() == 3 && matches!(&v[0], R::Bulk(b) if b == b"unsubscribe" || b == b"punsubscribe")));
                             if is_unsub_all {
                                 let split = |v: &Vec<R>| -> (Vec<String>, Vec<String>) { let mut names = Vec::new(); let mut counts = Vec::new(); for r in v { if let R::Arr(x) = r { if x.len() == 3 { names.push(format!("{:?}{:?}", x[0], x[1])); counts.push(format!("{:?}", x[2])); } else { names.push(format!("{:?}", r)); } } else { names.push(format!("{:?}", r)); } } names.sort(); (names, counts) };
                                 split(&exp) == split(&got)
                             } else { let mut a: Vec<String> = exp.iter().map(|r| format!("{:?}", r)).collect(); let mut b2: Vec<String> = got.iter().map(|r| format!("{:?}", r)).collect(); a.sort(); b2.sort(); a == b2 }
                         };
                if !ok && !*mismatch {
                    *mismatch = true;
                    let kind = if s.publisher { "publish-count".to_string() } else {
                        let e0 = match &exp[0] { R::Arr(v) => match v.first() { Some(R::Bulk(b)) => String::from_utf8_lossy(b).to_string(), _ => "?".into() }, _ => "?".into() };
                        let g0 = match &got[0] { R::Arr(v) => match v.first() { Some(R::Bulk(b)) => String::from_utf8_lossy(b).to_string(), _ => "?".into() }, other => other.kind().to_string() };
                        format!("exp={},got={}", e0, g0)
                    };
                    h.violate(format!("C14/delivery/{}", kind), format!("client {}: expected next {}, received {}", c, exp.iter().map(|r| r.short()).collect::<Vec<_>>().join(" ; "), got.iter().map(|r| r.short()).collect::<Vec<_>>().join(" ; ")));
                }
            }
        }
    };
    for (i, st) in sc.steps.iter().enumerate() {
        h.step_no = i;
        if h.dead.is_some() || mismatch { break; }
        match st {
            Step::Connect { c, inst, buf } => { let sim = h.connect(*c, *inst, *buf); cl.insert(*c, Sub { sim, channels: vec![], patterns: vec![], expected: VecDeque::new(), inflight: VecDeque::new(), closed_at: None, publisher: false, received: vec![] }); }
            Step::Send { c, a, .. } => {
                let args = args_of(a);
                if let Some(s) = cl.get_mut(c) { if s.closed_at.is_none() {
                    if upper(&args[0]) == "PUBLISH" { s.publisher = true; }
                    let d = resp::encode_cmd(&args); let sim = s.sim; h.send_bytes(sim, &d, &[]); tag += 1; let end = h.cs[sim].tx; cl.get_mut(c).unwrap().inflight.push_back((args, end, tag));
                } }
            }
            Step::Turns { n } => { for _ in 0..*n { h.turn(); turn_no += 1; reconcile(&mut h, &mut cl, turn_no, &mut group, &mut mismatch); } }
            Step::Arm { fop, conn, nth, action, .. } => { if let Some(s) = conn.and_then(|c| cl.get(&c)) { if s.closed_at.is_none() { let (inst, sim) = (h.inst, s.sim); h.sim.arm(inst, *fop, Some(sim), None, *nth, *action); h.count("syscall_faults_armed", 1); } } }
            Step::Close { c, .. } => {
                h.turn(); turn_no += 1; reconcile(&mut h, &mut cl, turn_no, &mut group, &mut mismatch);
                // what the client sent before closing is still carried out by a server that reads it only later (reads that
                // were interrupted or came back empty): let it be read first, and leave no such outcome armed on this socket
                if let Some(s) = cl.get(c) { let sim = s.sim; h.sim.disarm_conn(sim); }
                for _ in 0..12 { if mismatch || cl.get(c).map_or(true, |s| s.inflight.is_empty()) { break; } h.turn(); turn_no += 1; reconcile(&mut h, &mut cl, turn_no, &mut group, &mut mismatch); }
                if let Some(s) = cl.get_mut(c) { s.closed_at = Some(turn_no); let sim = s.sim; h.sim.close(sim, CloseHow::Close); h.count("probe_subscriber_disconnected", 1); }
            }
            _ => {}
        }
    }
    // (with small socket buffers a large message needs several turns to get through: wait while something is still owed)
    for t in 0..80 {
        if mismatch { break; }
        if t >= 6 && cl.values().all(|s| s.closed_at.is_some() || s.expected.is_empty()) { break; }
        h.turn(); turn_no += 1; reconcile(&mut h, &mut cl, turn_no, &mut group, &mut mismatch);
    }
    if !mismatch {
        for (c, s) in cl.iter() {
            if s.closed_at.is_some() { continue; }
            if !s.expected.is_empty() { let (_, e) = &s.expected[0]; h.violate(format!("C14/missing/{}", match e { R::Arr(v) => match v.first() { Some(R::Bulk(b)) => String::from_utf8_lossy(b).to_string(), _ => "?".into() }, R::Int(_) => "publish-reply".into(), _ => "?".into() }), format!("client {}: {} expected frame(s) never arrived, first: {} (received but unmatched: {})", c, s.expected.len(), e.short(), s.received.len())); break; }
            if !s.received.is_empty() { h.violate("C14/unsolicited".into(), format!("client {} received {} frame(s) nobody owes it, first: {}", c, s.received.len(), s.received[0].short())); break; }
            if let Some(pe) = &h.cs[s.sim].proto_err { h.violate("C14/malformed-push".into(), format!("client {}: {}", c, pe)); break; }
        }
    }
    h.health_violations("C14");
    h.finish(sc.seed)
}
fn n_deliveries_expected(d: i64, m: i64) -> Option<i64> { if d + m > 0 { Some(d) } else { None } }

pub static DEF: CheckDef = CheckDef {
    id: "C14", level: "exploration", gen, exec,
    nontrivial: |o| o.counters.get("publishes_with_receivers").copied().unwrap_or(0) >= 1 && o.counters.get("cmds").copied().unwrap_or(0) >= 6,
    rule: "one run = 1-4 subscriber connections and 1-2 publisher connections over 2-6 channels and 1-6 glob patterns drawn from pools with overlaps (*, ?, [a-c], [^a], escapes, a literal * in a channel name, the empty channel, binary names): SUBSCRIBE/PSUBSCRIBE with several names, UNSUBSCRIBE/PUNSUBSCRIBE named, repeated, of never-subscribed names and without arguments, PUBLISH of uniquely numbered payloads incl. NUL/CR/LF/0xFF bytes, subscribers disconnecting; requests of several connections are delivered before the same loop turn. From the server's read order the exact execution order is known; the model (harness' own glob matcher) yields for every subscriber the exact ordered sequence of acknowledgement and push frames - one message per matching channel subscription and one pmessage per matching pattern held at the moment of the PUBLISH (frames of one PUBLISH compared as a multiset), acknowledgements with the remaining subscription count - and for every PUBLISH the number of deliveries (a just-disconnected subscriber counts as maybe for 3 turns); everything received must match frame by frame, nothing may be missing or surplus at the end; in a third of the runs the subscribers' sockets have 4-16 KiB buffers, payloads grow to 1-20 KB (a push no longer fits into one write) and single reads / writes of the server on a subscriber's socket fail with EINTR / EAGAIN or transfer only 1..1000 bytes - none of which may lose, duplicate, reorder or damage a pushed frame; non-trivial = at least one PUBLISH with a receiver",
    quick_budget_s: 40.0, thorough_budget_s: 900.0, quick_max_runs: 1_000_000, thorough_max_runs: 100_000_000, exhaustive: false, exhaustive_after: |_| 0,
    real: REAL_WHOLE_SERVER, stub: STUB_WHOLE_SERVER, assumptions: ASSUME_COMMON,
};
