//! C01 — string and key-space commands follow the Redis reference semantics.
use super::seq::Seq;
use super::*;
use crate::harness::*;
use crate::scenario::*;

pub fn key_pool(r: &mut Rng) -> Vec<Vec<u8>> {
    let all: Vec<Vec<u8>> = vec![b"k1".to_vec(), b"k2".to_vec(), b"k3".to_vec(), b"user:1".to_vec(), b"".to_vec(), vec![0xff, 0x00, b'k'], b"a\r\nb".to_vec(),
        b"key with space".to_vec(), b"k*".to_vec(), b"[x]".to_vec(), b"K1".to_vec(), b"counter".to_vec(), vec![0xfe], vec![0xff], vec![0xc3, 0xa9], b"ab".to_vec()];
    let n = r.range(4, 9) as usize;
    let mut out = vec![b"k1".to_vec(), b"k2".to_vec()];
    while out.len() < n { let k = r.pick(&all).clone(); if !out.contains(&k) { out.push(k); } }
    out
}
pub fn value_pool(r: &mut Rng) -> Vec<Vec<u8>> {
    let mut v: Vec<Vec<u8>> = vec![b"".to_vec(), b"v".to_vec(), b"hello world".to_vec(), vec![0, 1, 2, 0xfe, 0xff], b"line1\r\nline2".to_vec(), b"0".to_vec(), b"1".to_vec(), b"-1".to_vec(),
        b"9223372036854775807".to_vec(), b"-9223372036854775808".to_vec(), b"9223372036854775806".to_vec(), b"9223372036854775808".to_vec(), b"+1".to_vec(), b" 1".to_vec(), b"01".to_vec(),
        b"1.0".to_vec(), b"-0".to_vec(), b"12abc".to_vec(), b"$-1".to_vec(), b"+OK".to_vec(), b"2147483648".to_vec(), b"42".to_vec()];
    if r.chance(1, 4) { v.push(vec![b'x'; 10 * 1024]); }
    if r.chance(1, 40) { v.push(vec![b'y'; 300 * 1024]); }
    v
}
pub fn int_pool() -> Vec<&'static str> {
    vec!["0", "1", "-1", "2", "-2", "3", "5", "10", "-10", "100", "9223372036854775807", "-9223372036854775808", "9223372036854775806", "2147483647", "-2147483649", "9223372036854775808", "abc", "", "1.5", "4294967296"]
}

fn k(r: &mut Rng, keys: &[Vec<u8>]) -> B { B(r.pick(keys).clone()) }
fn v(r: &mut Rng, vals: &[Vec<u8>]) -> B { B(r.pick(vals).clone()) }
fn iarg(r: &mut Rng) -> B { let p = int_pool(); b(*r.pick(&p)) }
fn small(r: &mut Rng) -> B { b(&format!("{}", r.range(-12, 12))) }

pub fn gen_cmd(r: &mut Rng, keys: &[Vec<u8>], vals: &[Vec<u8>]) -> Vec<B> {
    match r.weighted(&[14, 10, 4, 4, 3, 3, 3, 2, 4, 3, 5, 5, 8, 4, 4, 4, 3, 3, 3, 3, 2, 2, 1, 3, 2, 2, 2, 2, 1]) {
        0 => { // SET with options
            let mut a = vec![b("SET"), k(r, keys), v(r, vals)];
            match r.below(12) {
                0 => a.push(b("NX")), 1 => a.push(b("XX")),
                2 => { a.push(b("EX")); a.push(b(&format!("{}", r.range(1, 5)))); }
                3 => { a.push(b("PX")); a.push(b(&format!("{}", r.range(1, 4000)))); }
                4 => { a.push(b("NX")); a.push(b("PX")); a.push(b(&format!("{}", r.range(1, 4000)))); }
                5 => { a.push(b("XX")); a.push(b("EX")); a.push(b(&format!("{}", r.range(1, 5)))); }
                6 => { a.push(b(*r.pick(&["EX", "PX"]))); a.push(b(*r.pick(&["0", "-1", "abc", "", "1.5", "9223372036854775807"]))); }
                7 => { a.push(b("NX")); a.push(b("XX")); }
                8 => { a.push(b(*r.pick(&["EX", "PX"]))); }
                9 => { a.push(b(*r.pick(&["FOO", "nx", "xx", "ex"]))); if r.chance(1, 2) { a.push(b("10")); } }
                _ => {}
            }
            a
        }
        1 => vec![b("GET"), k(r, keys)],
        2 => { let mut a = vec![b("MGET")]; for _ in 0..r.range(1, 4) { a.push(k(r, keys)); } a }
        3 => { let mut a = vec![b("MSET")]; for _ in 0..r.range(1, 3) { a.push(k(r, keys)); a.push(v(r, vals)); } if r.chance(1, 10) { a.push(k(r, keys)); } a }
        4 => vec![b("GETSET"), k(r, keys), v(r, vals)],
        5 => vec![b("SETNX"), k(r, keys), v(r, vals)],
        6 => vec![b(*r.pick(&["SETEX", "PSETEX"])), k(r, keys), if r.chance(1, 5) { iarg(r) } else { b(&format!("{}", r.range(1, 3000))) }, v(r, vals)],
        7 => vec![b("APPEND"), k(r, keys), v(r, vals)],
        8 => vec![b("STRLEN"), k(r, keys)],
        9 => vec![b("GETRANGE"), k(r, keys), if r.chance(1, 4) { iarg(r) } else { small(r) }, if r.chance(1, 4) { iarg(r) } else { small(r) }],
        10 => vec![b("SETRANGE"), k(r, keys), if r.chance(1, 5) { b(*r.pick(&["-1", "abc", "", "1.5", "100", "70000", "-9223372036854775808"])) } else { b(&format!("{}", r.range(0, 20))) }, v(r, &vals[..8.min(vals.len())])],
        11 => vec![b(*r.pick(&["INCR", "DECR"])), k(r, keys)],
        12 => vec![b(*r.pick(&["INCRBY", "DECRBY"])), k(r, keys), iarg(r)],
        13 => { let mut a = vec![b("DEL")]; for _ in 0..r.range(1, 3) { a.push(k(r, keys)); } a }
        14 => { let mut a = vec![b("EXISTS")]; for _ in 0..r.range(1, 3) { a.push(k(r, keys)); } a }
        15 => vec![b("TYPE"), k(r, keys)],
        16 => vec![b("RENAME"), k(r, keys), k(r, keys)],
        17 => vec![b("RENAMENX"), k(r, keys), k(r, keys)],
        18 => if r.chance(1, 4) { vec![b("KEYS"), B(r.pick(&[&b"\xff"[..], b"?", b"??", b"\xc3?", b"[\xfe-\xff]", b"\xfe*", b"*\xa9"]).to_vec())] } else { vec![b("KEYS"), b(*r.pick(&["*", "k*", "k?", "[kK]1", "*1", "k[1-2]", "[^k]*", "\\k1", "", "user:*", "k\\*", "*\r\n*"]))] },
        19 => vec![b("DBSIZE")],
        20 => vec![b("RANDOMKEY")],
        21 => vec![b(*r.pick(&["FLUSHDB", "FLUSHALL"]))],
        22 => vec![b("SELECT"), b(*r.pick(&["0", "1", "15", "16", "-1", "abc", "99999999999999999999"]))],
        23 => vec![b(*r.pick(&["TTL", "PTTL"])), k(r, keys)],
        24 => vec![b(*r.pick(&["EXPIRE", "PEXPIRE"])), k(r, keys), b(&format!("{}", r.range(1, 3000)))],
        25 => vec![b("PERSIST"), k(r, keys)],
        26 => { // wrong arity / stray arguments
            let verb = *r.pick(&["GET", "SET", "STRLEN", "APPEND", "INCR", "INCRBY", "GETRANGE", "SETRANGE", "RENAME", "TYPE", "GETSET", "SETNX", "SETEX", "MSET", "DBSIZE", "KEYS"]);
            let mut a = vec![b(verb)];
            for _ in 0..r.below(5) { a.push(k(r, keys)); }
            a
        }
        27 => { // make a key hold another type
            let key = k(r, keys);
            match r.below(4) { 0 => vec![b("LPUSH"), key, b("a"), b("b")], 1 => vec![b("SADD"), key, b("a"), b("b")], 2 => vec![b("HSET"), key, b("f"), b("v")], _ => vec![b("ZADD"), key, b("1"), b("m")] }
        }
        _ => vec![b("XADD"), k(r, keys), b("*"), b("f"), b("v")],
    }
}

pub fn gen(seed: u64, _idx: u64, tier: Tier) -> Scenario {
    let mut r = Rng::new(seed);
    let mut sc = Scenario::new("C01", seed);
    sc.knobs.insert("preempt".into(), *r.pick(&[0, 0, 10, 100]));
    let keys = key_pool(&mut r);
    let vals = value_pool(&mut r);
    sc.steps.push(Step::Connect { c: 0, inst: 0, buf: 0 });
    let n = match tier { Tier::Quick => r.range(20, 150), Tier::Thorough => r.range(20, 300) };
    let seg = r.below(4); // 0 none, 1 some split, 2 many splits, 3 tiny
    for _ in 0..n {
        let a = gen_cmd(&mut r, &keys, &vals);
        let len = crate::resp::encode_cmd(&args_of(&a)).len() as i64;
        let split: Vec<u32> = match seg {
            0 => vec![],
            1 => if r.chance(1, 4) && len > 2 { vec![r.range(1, len - 1) as u32] } else { vec![] },
            2 => if len > 4 && len < 400 { (0..r.range(1, 3)).map(|_| r.range(1, (len / 3).max(1)) as u32).collect() } else { vec![] },
            _ => if len < 60 && r.chance(1, 3) { vec![1; (len - 1) as usize] } else { vec![] },
        };
        sc.steps.push(Step::Cmd { c: 0, a, split });
        if r.chance(1, 6) { sc.steps.push(Step::Adv { ns: *r.pick(&[1_000_000u64, 50_000_000, 400_000_000, 900_000_000, 1_100_000_000, 2_500_000_000]) }); }
    }
    sc
}

pub fn exec(sc: &Scenario) -> Outcome {
    let mut s = match Seq::new(sc, "C01") { Ok(s) => s, Err(o) => return o };
    for (i, st) in sc.steps.iter().enumerate() {
        s.h.step_no = i;
        if s.h.dead.is_some() { break; }
        s.run_step(st);
    }
    s.finish(sc.seed)
}

pub static DEF: CheckDef = CheckDef {
    id: "C01", level: "exploration", gen, exec,
    nontrivial: |o| o.counters.get("cmds").copied().unwrap_or(0) >= 20,
    rule: "one run = one seeded history of 20-300 string/key-space commands (all SET option combinations, boundary integers, binary/empty/CRLF keys and values, keys pre-populated with other types, wrong arities) from one client over a segmented connection, with clock advances across TTL deadlines and the sweeper thread running; every reply is compared with the reference model at the exact virtual execution time and the stored dataset of all 16 databases is compared with the model after every command; non-trivial = at least 20 commands answered; distinct = distinct event-log hash",
    quick_budget_s: 45.0, thorough_budget_s: 900.0, quick_max_runs: 1_000_000, thorough_max_runs: 100_000_000, exhaustive: false, exhaustive_after: |_| 0,
    real: REAL_WHOLE_SERVER, stub: STUB_WHOLE_SERVER, assumptions: ASSUME_COMMON,
};
