//! C16 — consumer groups deliver each entry once and account pending entries exactly.
use super::c15::{dyn_id, dyn_pel, exec_as, fields_unique as fields, time_step};
use super::*;
use crate::harness::*;
use crate::scenario::*;

pub fn gen(seed: u64, _idx: u64, tier: Tier) -> Scenario {
    let mut r = Rng::new(seed);
    let mut sc = Scenario::new("C16", seed);
    sc.knobs.insert("preempt".into(), *r.pick(&[0, 0, 10, 100]));
    sc.steps.push(Step::Connect { c: 0, inst: 0, buf: 0 });
    let skeys = ["s1", "s2"];
    let groups = ["g1", "g2"];
    let consumers = ["a", "b", "c"];
    let n = match tier { Tier::Quick => r.range(15, 120), Tier::Thorough => r.range(15, 300) };
    sc.steps.push(Step::Cmd { c: 0, a: vec![b("SET"), b("str"), b("v")], split: vec![] });
    // most runs start with a populated stream and a group, so that deliveries happen early
    if r.chance(3, 4) {
        for _ in 0..r.range(0, 4) { let mut a = vec![b("XADD"), b("s1"), b("*")]; a.extend(fields(&mut r)); sc.steps.push(Step::Cmd { c: 0, a, split: vec![] }); }
        sc.steps.push(Step::Cmd { c: 0, a: vec![b("XGROUP"), b("CREATE"), b("s1"), b("g1"), b(*r.pick(&["$", "0", "0-0"])), b("MKSTREAM")], split: vec![] });
    }
    for _ in 0..n {
        let key = if r.chance(1, 16) { *r.pick(&["str", "missing"]) } else if r.chance(3, 4) { "s1" } else { *r.pick(&skeys) };
        let k = b(key);
        let g = if r.chance(1, 14) { "nogroup" } else if r.chance(3, 4) { "g1" } else { *r.pick(&groups) };
        let c = *r.pick(&consumers);
        let mut dynamic = false;
        let a: Vec<B> = match r.weighted(&[20, 7, 2, 4, 4, 2, 26, 12, 8, 8, 10, 5, 2, 1, 10]) {
            0 => { let id = if r.chance(1, 8) { b(*r.pick(super::c15::ID_POOL)) } else { b("*") }; let mut a = vec![b("XADD"), k, id]; a.extend(fields(&mut r)); a }
            1 => { let mut a = vec![b("XGROUP"), b("CREATE"), k, b(g), match r.weighted(&[4, 3, 2, 2]) { 0 => b("$"), 1 => b("0"), 2 => b(*r.pick(super::c15::ID_POOL)), _ => { dynamic = true; dyn_id(key, r.below(64), r.range(-1, 1)) } }]; if r.chance(1, 2) { a.push(b("MKSTREAM")); } a }
            2 => vec![b("XGROUP"), b("DESTROY"), k, b(g)],
            3 => { dynamic = true; vec![b("XGROUP"), b("SETID"), k, b(g), match r.weighted(&[3, 3, 6]) { 0 => b("$"), 1 => b("0-0"), _ => dyn_id(key, r.below(64), r.range(-1, 1)) }] }
            4 => vec![b("XGROUP"), b("DELCONSUMER"), k, b(g), b(c)],
            5 => vec![b("XGROUP"), b("CREATECONSUMER"), k, b(g), b(c)],
            6 => {
                let mut a = vec![b("XREADGROUP"), b("GROUP"), b(g), b(c)];
                if r.chance(1, 2) { a.push(b("COUNT")); a.push(b(*r.pick(&["1", "2", "3", "100"]))); }
                if r.chance(1, 5) { a.push(b("NOACK")); }
                a.push(b("STREAMS"));
                if r.chance(1, 8) { a.push(b("s1")); a.push(b("s2")); a.push(b(">")); a.push(b(">")); } else { a.push(k); a.push(b(">")); }
                a
            }
            7 => { dynamic = true; let mut a = vec![b("XACK"), k, b(g)]; for _ in 0..r.range(1, 3) { a.push(match r.weighted(&[8, 2, 1]) { 0 => dyn_pel(key, g, r.below(64), 0), 1 => dyn_id(key, r.below(64), 0), _ => b(*r.pick(super::c15::ID_POOL)) }); } if r.chance(1, 6) { let d = a[3].clone(); a.push(d); } a }
            8 => vec![b("XPENDING"), k, b(g)],
            9 => { dynamic = true; let mut a = vec![b("XPENDING"), k, b(g)];
                   let (lo, hi) = if r.chance(1, 2) { (b("-"), b("+")) } else { (if r.chance(1, 2) { b("-") } else { dyn_pel(key, g, r.below(64), r.range(-1, 1)) }, if r.chance(1, 2) { b("+") } else { dyn_pel(key, g, r.below(64), r.range(-1, 1)) }) };
                   a.push(lo); a.push(hi); a.push(b(*r.pick(&["1", "2", "10", "100", "0"]))); if r.chance(2, 5) { a.push(b(c)); } a }
            10 => { dynamic = true; let mut a = vec![b("XCLAIM"), k, b(g), b(c), b(*r.pick(&["0", "0", "1", "5", "100", "10000"]))]; for _ in 0..r.range(1, 3) { a.push(match r.weighted(&[8, 2, 1]) { 0 => dyn_pel(key, g, r.below(64), 0), 1 => dyn_id(key, r.below(64), 0), _ => b(*r.pick(super::c15::ID_POOL)) }); } if r.chance(1, 4) { a.push(b("JUSTID")); } a }
            11 => { dynamic = true; let mut a = vec![b("XDEL"), k]; for _ in 0..r.range(1, 2) { a.push(dyn_id(key, r.below(64), 0)); } a }
            12 => vec![b("XTRIM"), k, b("MAXLEN"), b(*r.pick(&["0", "1", "2", "5"]))],
            13 => vec![b(*r.pick(&["DEL", "TYPE", "XLEN"])), k],
            _ => { time_step(&mut r, &mut sc); continue; }
        };
        if dynamic { sc.steps.push(Step::Ctl { name: "dyn".into(), n: 0, a }); } else { sc.steps.push(Step::Cmd { c: 0, a, split: vec![] }); }
    }
    sc
}

pub fn exec(sc: &Scenario) -> Outcome { exec_as(sc, "C16") }

pub static DEF: CheckDef = CheckDef {
    id: "C16", level: "exploration", gen, exec,
    nontrivial: |o| o.counters.get("cmds").copied().unwrap_or(0) >= 15,
    rule: "one run = one seeded history of 15-300 commands by three consumers in two groups on two streams (plus a string, a missing key and a missing group): XGROUP CREATE (at $, 0, pool ids, ids resolved to stored ids and their neighbours; MKSTREAM), DESTROY, SETID (backwards and forwards), DELCONSUMER, CREATECONSUMER; XREADGROUP > with and without COUNT and NOACK, on one and two streams; XACK of pending, repeated, never-delivered and absent ids; XCLAIM with idle thresholds 0..10 s (virtual clock steps of 0.1 ms..1 h and realtime jumps in between), with JUSTID, of pending / not pending / deleted ids; XPENDING summary and extended form (bounds at, next to and away from pending ids, COUNT, consumer filter); XADD / XDEL / XTRIM / DEL in between; every reply is compared with a model of one cursor and one pending map per group (exactly-once delivery in id order, XACK counts an entry once, XPENDING total / bounds / per-consumer counts / idle times / delivery counts), and after every command the stored group state is read back: the two pending indexes, per-consumer counters and total must agree with each other (hook) and with the model's pending set and cursor; non-trivial = at least 15 commands; distinct = distinct event-log hash",
    quick_budget_s: 40.0, thorough_budget_s: 900.0, quick_max_runs: 1_000_000, thorough_max_runs: 100_000_000, exhaustive: false, exhaustive_after: |_| 0,
    real: REAL_WHOLE_SERVER, stub: STUB_WHOLE_SERVER, assumptions: ASSUME_COMMON,
};
