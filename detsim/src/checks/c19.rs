//! C19 — a full SCAN iteration returns every element present throughout it.
use super::seq::Seq;
use super::*;
use crate::harness::*;
use crate::model::keyspace::glob_match;
use crate::resp::R;
use crate::scenario::*;
use std::collections::{BTreeMap, BTreeSet};

const PATTERNS: &[&str] = &["", "", "", "*", "a*", "*1", "?:*", "[a-c]:*", "*:1*", "b:?", "nomatch*", "*[02468]", "c:1?", "[^a]*", "d:*5*", "*\\:*"];

// ("\u{e9}" is two bytes: a glob `?` stands for one byte, not for one character)
fn name(r: &mut Rng, i: u64) -> String { format!("{}:{}", *r.pick(&["a", "b", "c", "d", "e", "a", "b", "c", "d", "e", "\u{e9}"]), i) }

pub fn gen(seed: u64, _idx: u64, tier: Tier) -> Scenario {
    let mut r = Rng::new(seed);
    let mut sc = Scenario::new("C19", seed);
    sc.knobs.insert("preempt".into(), *r.pick(&[0, 0, 10]));
    sc.steps.push(Step::Connect { c: 0, inst: 0, buf: 0 });
    let rounds = match tier { Tier::Quick => r.range(1, 3), Tier::Thorough => r.range(1, 6) };
    for round in 0..rounds {
        let kind = *r.pick(&["SCAN", "SCAN", "HSCAN", "SSCAN", "ZSCAN"]);
        // size classes: empty, tiny, around the default COUNT, medium, large
        let size = match r.weighted(&[1, 3, 4, 6, 4]) { 0 => 0, 1 => r.range(1, 5), 2 => r.range(6, 25), 3 => r.range(26, 120), _ => r.range(121, 400) } as u64;
        let count = *r.pick(&["", "1", "2", "3", "5", "10", "11", "50", "100", "1000", "100000"]);
        let pattern = *r.pick(PATTERNS);
        let typ = if kind == "SCAN" && r.chance(1, 4) { *r.pick(&["string", "list", "set", "hash", "zset", "STRING", "Hash", "ZSET"]) } else { "" }; // (type names are not case-sensitive)
        // churn between calls: none, additions only, deletions only, both; how often
        let churn = *r.pick(&["none", "add", "del", "both", "both"]);
        let churn_rate = *r.pick(&[1i64, 2, 4]);
        sc.steps.push(Step::Cmd { c: 0, a: vec![b("SELECT"), b(&format!("{}", round % 16))], split: vec![] });
        sc.steps.push(Step::Ctl { name: "iterate".into(), n: (r.next() >> 1) as i64, a: vec![b(kind), b(&format!("{}", size)), b(count), b(pattern), b(typ), b(churn), b(&format!("{}", churn_rate))] });
    }
    sc
}

fn typed_add(typ_ix: u64, key: &str, uniq: u64) -> Vec<Vec<u8>> {
    let k = key.as_bytes().to_vec();
    match typ_ix % 5 {
        0 => vec![b"SET".to_vec(), k, format!("v{}", uniq).into_bytes()],
        1 => vec![b"RPUSH".to_vec(), k, b"e".to_vec()],
        2 => vec![b"SADD".to_vec(), k, b"m".to_vec()],
        3 => vec![b"HSET".to_vec(), k, b"f".to_vec(), b"v".to_vec()],
        _ => vec![b"ZADD".to_vec(), k, b"1".to_vec(), b"m".to_vec()],
    }
}
fn type_name(ix: u64) -> &'static str { ["string", "list", "set", "hash", "zset"][(ix % 5) as usize] }

/// One complete cursor iteration with churn of other elements between the calls.
fn iterate(s: &mut Seq, seed: u64, a: &[B]) {
    let mut r = Rng::new(seed);
    let arg = |i: usize| String::from_utf8_lossy(&a[i].0).to_string();
    let (kind, size, count, pattern, typ, churn, churn_rate) = (arg(0), arg(1).parse::<u64>().unwrap_or(0), arg(2), arg(3), arg(4), arg(5), arg(6).parse::<u64>().unwrap_or(2));
    let coll = b"coll".to_vec();
    // ---- populate: stable elements (kept throughout), volatile ones (may be deleted during the iteration)
    let mut stable: BTreeMap<String, u64> = BTreeMap::new(); // name -> type index (SCAN) / value id
    let mut volatile: BTreeMap<String, u64> = BTreeMap::new();
    let mut uniq = 0u64;
    let mut batch: Vec<(String, u64)> = Vec::new();
    for i in 0..size { let nm = name(&mut r, i); let t = r.below(5); if r.chance(2, 3) { stable.insert(nm.clone(), t); } else { volatile.insert(nm.clone(), t); } batch.push((nm, t)); }
    let add_elems = |s: &mut Seq, items: &[(String, u64)], uniq: &mut u64| {
        if items.is_empty() { return; }
        match kind.as_str() {
            "SCAN" => {
                // strings in bulk, other types one by one
                let mut mset = vec![b"MSET".to_vec()];
                for (nm, t) in items { if t % 5 == 0 { *uniq += 1; mset.push(nm.as_bytes().to_vec()); mset.push(format!("v{}", uniq).into_bytes()); } }
                if mset.len() > 1 { s.do_cmd(0, &mset, &[]); }
                for (nm, t) in items { if t % 5 != 0 { *uniq += 1; s.do_cmd(0, &typed_add(*t, nm, *uniq), &[]); } }
            }
            "HSCAN" => { let mut c = vec![b"HSET".to_vec(), coll.clone()]; for (nm, t) in items { c.push(nm.as_bytes().to_vec()); c.push(format!("val{}", t).into_bytes()); } s.do_cmd(0, &c, &[]); }
            "SSCAN" => { let mut c = vec![b"SADD".to_vec(), coll.clone()]; for (nm, _) in items { c.push(nm.as_bytes().to_vec()); } s.do_cmd(0, &c, &[]); }
            _ => { let mut c = vec![b"ZADD".to_vec(), coll.clone()]; for (nm, t) in items { c.push(format!("{}", t).into_bytes()); c.push(nm.as_bytes().to_vec()); } s.do_cmd(0, &c, &[]); }
        }
    };
    s.do_cmd(0, &[b"FLUSHDB".to_vec()], &[]);
    for chunk in batch.chunks(64) { add_elems(s, chunk, &mut uniq); }
    let mut ever: BTreeMap<String, u64> = stable.clone();
    ever.extend(volatile.clone());
    // ---- iterate
    let matches = |nm: &str, t: u64| -> bool { (pattern.is_empty() || glob_match(pattern.as_bytes(), nm.as_bytes())) && (typ.is_empty() || kind != "SCAN" || type_name(t) == typ.to_lowercase()) };
    let mut returned: BTreeSet<String> = BTreeSet::new();
    let mut cursor = b"0".to_vec();
    let mut calls = 0u64;
    let mut churn_calls = 0u64;
    let mut next_new = size;
    let budget_churn_calls = 40u64;
    let mut added_total = 0u64;
    let mut deleted_total = 0u64;
    let mut spurious: Option<String> = None;
    let mut bad_shape: Option<String> = None;
    loop {
        let mut c: Vec<Vec<u8>> = if kind == "SCAN" { vec![b"SCAN".to_vec(), cursor.clone()] } else { vec![kind.as_bytes().to_vec(), coll.clone(), cursor.clone()] };
        if !pattern.is_empty() { c.push(b"MATCH".to_vec()); c.push(pattern.as_bytes().to_vec()); }
        if !count.is_empty() { c.push(b"COUNT".to_vec()); c.push(count.as_bytes().to_vec()); }
        if !typ.is_empty() && kind == "SCAN" { c.push(b"TYPE".to_vec()); c.push(typ.as_bytes().to_vec()); }
        let i = s.h.cl(0).unwrap();
        let res = s.h.cmd(i, &c, &[]);
        calls += 1;
        s.h.count("scan_calls", 1);
        let rep = match res.reply { Some(r) => r, None => { bad_shape = Some("no reply".into()); break; } };
        s.h.note(format!("{} -> {}", show_cmd(&c), rep.short()));
        let (next, items) = match &rep { R::Arr(v) if v.len() == 2 => match (&v[0], &v[1]) { (R::Bulk(n), R::Arr(items)) => (n.clone(), items.clone()), (R::Bulk(n), R::NilArr) => (n.clone(), vec![]), _ => { bad_shape = Some(rep.short()); break; } }, _ => { bad_shape = Some(rep.short()); break; } };
        if std::str::from_utf8(&next).ok().and_then(|x| x.parse::<u64>().ok()).is_none() { bad_shape = Some(format!("cursor {}", rep.short())); break; }
        let step = if kind == "HSCAN" || kind == "ZSCAN" { 2 } else { 1 };
        if items.len() % step != 0 { bad_shape = Some(format!("odd number of items: {}", rep.short())); break; }
        for it in items.chunks(step) {
            let nm = match &it[0] { R::Bulk(x) => String::from_utf8_lossy(x).to_string(), other => { bad_shape = Some(other.short()); break; } };
            match ever.get(&nm) {
                None => { if spurious.is_none() { spurious = Some(format!("{} was returned but never existed", nm)); } }
                Some(t) => {
                    if !matches(&nm, *t) && spurious.is_none() { spurious = Some(format!("{} (type {}) was returned but does not satisfy MATCH {:?} TYPE {:?}", nm, type_name(*t), pattern, typ)); }
                    if kind == "HSCAN" { if it[1] != R::Bulk(format!("val{}", t).into_bytes()) && spurious.is_none() { spurious = Some(format!("field {} returned with value {} instead of val{}", nm, it[1].short(), t)); } }
                    if kind == "ZSCAN" { if let R::Bulk(sc) = &it[1] { if crate::model::keyspace::parse_f64_reply(sc) != Some(*t as f64) && spurious.is_none() { spurious = Some(format!("member {} returned with score {} instead of {}", nm, it[1].short(), t)); } } }
                }
            }
            returned.insert(nm);
        }
        cursor = next;
        if cursor == b"0" { break; }
        if calls > 3 * (ever.len() as u64 + 10) + 50 { break; }
        // ---- churn of other elements between two calls (bounded, so that the key space stops growing)
        if churn != "none" && churn_calls < budget_churn_calls && r.below(churn_rate) == 0 {
            churn_calls += 1;
            let k = r.range(1, 4) as u64;
            if (churn == "add" || churn == "both") && r.chance(2, 3) {
                let mut items = Vec::new();
                for _ in 0..k { let nm = name(&mut r, next_new); next_new += 1; let t = r.below(5); if ever.contains_key(&nm) { continue; } ever.insert(nm.clone(), t); items.push((nm, t)); }
                added_total += items.len() as u64;
                add_elems(s, &items, &mut uniq);
            }
            if (churn == "del" || churn == "both") && r.chance(2, 3) {
                for _ in 0..k {
                    let pool: Vec<String> = volatile.keys().cloned().collect();
                    if pool.is_empty() { break; }
                    let nm = pool[r.below(pool.len() as u64) as usize].clone();
                    volatile.remove(&nm);
                    deleted_total += 1;
                    let c = match kind.as_str() { "SCAN" => vec![b"DEL".to_vec(), nm.into_bytes()], "HSCAN" => vec![b"HDEL".to_vec(), coll.clone(), nm.into_bytes()], "SSCAN" => vec![b"SREM".to_vec(), coll.clone(), nm.into_bytes()], _ => vec![b"ZREM".to_vec(), coll.clone(), nm.into_bytes()] };
                    s.do_cmd(0, &c, &[]);
                }
            }
        }
    }
    s.h.count("iterations", 1);
    s.h.count("elements_added_during_iteration", added_total);
    s.h.count("elements_deleted_during_iteration", deleted_total);
    if calls > 1 { s.h.count("multi_call_iterations", 1); }
    let cclass = match count.parse::<u64>().unwrap_or(10) { 0..=3 => "count<=3", 4..=11 => "count~10", _ => "count>=50" };
    let fclass = format!("{}{}", if pattern.is_empty() { "" } else { "+match" }, if typ.is_empty() { "" } else { "+type" });
    let fclass = if fclass.is_empty() { "nofilter".to_string() } else { fclass[1..].to_string() };
    let churn_seen = if added_total > 0 && deleted_total > 0 { "add+del" } else if added_total > 0 { "add" } else if deleted_total > 0 { "del" } else { "static" };
    if let Some(b) = bad_shape { s.h.violate(format!("C19/malformed-reply/{}", kind), format!("{} iteration: {}", kind, b)); return; }
    if cursor != b"0" {
        s.h.violate(format!("C19/no-termination/{}/{}", kind, churn_seen), format!("{} iteration over {} elements (COUNT {:?}) had not returned to cursor 0 after {} calls although nothing was added any more", kind, ever.len(), count, calls));
        return;
    }
    let missed: Vec<&String> = stable.iter().filter(|(nm, t)| matches(nm, **t) && !returned.contains(*nm)).map(|(nm, _)| nm).collect();
    if !missed.is_empty() {
        s.h.violate(format!("C19/missed/{}/{}/{}/{}", kind, churn_seen, fclass, cclass),
            format!("{} iteration (COUNT {:?} MATCH {:?} TYPE {:?}, {} calls, {} added / {} deleted in between) never returned {} of the {} elements that existed throughout, e.g. {:?}", kind, count, pattern, typ, calls, added_total, deleted_total, missed.len(), stable.len(), missed.iter().take(4).collect::<Vec<_>>()));
    }
    if let Some(sp) = spurious { s.h.violate(format!("C19/spurious/{}/{}", kind, fclass), format!("{} iteration (MATCH {:?} TYPE {:?}): {}", kind, pattern, typ, sp)); }
}

pub fn exec(sc: &Scenario) -> Outcome {
    let mut s = match Seq::new(sc, "C19") { Ok(s) => s, Err(o) => return o };
    s.compare_dumps = false;
    for (i, st) in sc.steps.iter().enumerate() {
        s.h.step_no = i;
        if s.h.dead.is_some() { break; }
        match st {
            Step::Ctl { name, n, a } if name == "iterate" && a.len() == 7 => iterate(&mut s, *n as u64, a),
            _ => { s.run_step(st); }
        }
    }
    s.finish(sc.seed)
}

pub static DEF: CheckDef = CheckDef {
    id: "C19", level: "exploration", gen, exec,
    nontrivial: |o| o.counters.get("iterations").copied().unwrap_or(0) >= 1,
    rule: "one run = 1-6 complete cursor iterations (SCAN over the key space of one database with keys of all five types, or HSCAN / SSCAN / ZSCAN over one collection) of 0-400 elements whose names interleave in every ordering, with COUNT absent or 1..100000, MATCH absent or one of 13 glob patterns (prefix, suffix, ?, classes, negated class, escape, matching nothing), TYPE absent or one of the five types; between successive calls, at a per-run rate, 1-4 other elements are added and/or deleted (bounded in total so that the key space stops growing); oracle over the recorded iteration: every element that existed from the first to the last call and satisfies the filters was returned at least once, nothing was returned that never existed or fails the filters (HSCAN values and ZSCAN scores must be the stored ones), every reply is a [cursor, array] pair, and the cursor returns to 0 within 3 x (elements ever present + 10) + 50 calls; the mutating commands are themselves checked against the reference model; non-trivial = at least one iteration; distinct = distinct event-log hash",
    quick_budget_s: 40.0, thorough_budget_s: 900.0, quick_max_runs: 1_000_000, thorough_max_runs: 100_000_000, exhaustive: false, exhaustive_after: |_| 0,
    real: REAL_WHOLE_SERVER, stub: STUB_WHOLE_SERVER, assumptions: ASSUME_COMMON,
};
