//! C18 — numbered databases are fully isolated from one another.
use super::multi::{upper, Multi};
use super::*;
use crate::harness::*;
use crate::resp::R;
use crate::scenario::*;

const WRAP: &str = "return redis.call(unpack(ARGV))";

/// One data command on the shared key names (the same names are used in every database).
pub fn data_cmd(r: &mut Rng, uniq: &mut u64, deterministic: bool) -> Vec<B> {
    *uniq += 1;
    let v = |u: u64| b(&format!("v{}@DB@", u));
    let m = |r: &mut Rng| b(&format!("m{}", r.below(6)));
    let k = |r: &mut Rng| b(*r.pick(&["k1", "k2"]));
    let l = |r: &mut Rng| b(*r.pick(&["l1", "l2"]));
    let s = |r: &mut Rng| b(*r.pick(&["s1", "s2"]));
    loop {
        let a = match r.below(46) {
            0 | 1 => vec![b("SET"), k(r), v(*uniq)],
            2 | 3 => vec![b("GET"), k(r)],
            4 => vec![b("APPEND"), k(r), v(*uniq)],
            5 => vec![b("INCR"), b("n1")],
            6 => vec![b("DEL"), b(*r.pick(&["k1", "l1", "s1", "h1", "z1", "n1", "x1"]))],
            7 => vec![b("EXISTS"), b(*r.pick(&["k1", "l1", "s1", "h1", "z1", "n1", "x1"]))],
            8 => vec![b("EXPIRE"), k(r), b("1000")],
            9 => vec![b("TTL"), k(r)],
            10 => vec![b(*r.pick(&["RENAME", "RENAMENX", "RENAMENX"])), k(r), k(r)],
            11 => vec![b("TYPE"), b(*r.pick(&["k1", "l1", "s1", "h1", "z1", "x1"]))],
            12 | 13 => vec![b(*r.pick(&["LPUSH", "RPUSH"])), l(r), v(*uniq)],
            14 => vec![b(*r.pick(&["LPOP", "RPOP"])), l(r)],
            15 => vec![b("LRANGE"), l(r), b("0"), b("-1")],
            16 => vec![b("LLEN"), l(r)],
            17 => vec![b("RPOPLPUSH"), b("l1"), b("l2")],
            18 | 19 => vec![b("SADD"), s(r), m(r), m(r)],
            20 => vec![b("SREM"), s(r), m(r)],
            21 => vec![b("SCARD"), s(r)],
            22 => vec![b("SISMEMBER"), s(r), m(r)],
            23 => vec![b(*r.pick(&["SDIFF", "SINTER", "SUNION"])), b("s1"), b("s2")],
            24 => vec![b("SDIFF"), b("s2"), b("s1"), b("s1")],
            25 => vec![b("SMOVE"), b("s1"), b("s2"), m(r)],
            26 => vec![b("SMEMBERS"), s(r)],
            27 | 28 => vec![b("HSET"), b("h1"), b(&format!("f{}", r.below(3))), v(*uniq)],
            29 => vec![b("HGET"), b("h1"), b(&format!("f{}", r.below(3)))],
            30 => vec![b("HDEL"), b("h1"), b(&format!("f{}", r.below(3)))],
            31 => vec![b("HLEN"), b("h1")],
            32 => vec![b("HGETALL"), b("h1")],
            33 | 34 => vec![b("ZADD"), b("z1"), b(&format!("{}", r.below(5))), m(r)],
            35 => vec![b("ZSCORE"), b("z1"), m(r)],
            36 => vec![b("ZRANGE"), b("z1"), b("0"), b("-1")],
            37 => vec![b("ZCARD"), b("z1")],
            38 => vec![b("ZREM"), b("z1"), m(r)],
            39 => vec![b("XADD"), b("x1"), b(&format!("{}-1", *uniq)), b("f"), v(*uniq)],
            40 => vec![b("XLEN"), b("x1")],
            41 => vec![b("XRANGE"), b("x1"), b("-"), b("+")],
            42 => vec![b("MGET"), b("k1"), b("k2"), b("n1")],
            43 => vec![b("MSET"), b("k1"), v(*uniq), b("k2"), v(*uniq)],
            44 => vec![b("DBSIZE")],
            _ => vec![b("KEYS"), b("*")],
        };
        // unordered / multi-shape replies cannot be followed blindly through the script path
        if deterministic && matches!(upper(&a[0].0).as_str(), "SMEMBERS" | "HGETALL" | "KEYS" | "SDIFF" | "SINTER" | "SUNION" | "ZSCORE" | "ZADD") { continue; }
        return a;
    }
}

pub fn gen(seed: u64, _idx: u64, tier: Tier) -> Scenario {
    let mut r = Rng::new(seed);
    let mut sc = Scenario::new("C18", seed);
    sc.knobs.insert("preempt".into(), *r.pick(&[0, 0, 50, 300]));
    let nc = r.range(2, 4) as usize;
    for c in 0..nc { sc.steps.push(Step::Connect { c, inst: 0, buf: 0 }); }
    // the databases of this run: 2-4 of the 16, usually including 0 (the default and the classic leak target)
    let mut dbs: Vec<i64> = Vec::new();
    if r.chance(3, 4) { dbs.push(0); }
    while dbs.len() < r.range(2, 4) as usize { let d = *r.pick(&[1i64, 2, 3, 7, 9, 14, 15]); if !dbs.contains(&d) { dbs.push(d); } }
    sc.steps.push(Step::Send { c: 0, a: vec![b("SCRIPT"), b("LOAD"), b(WRAP)], split: vec![] });
    sc.steps.push(Step::Turns { n: 2 });
    let mut uniq = 0u64;
    let n = match tier { Tier::Quick => r.range(12, 60), Tier::Thorough => r.range(12, 150) };
    let mut waiter: Option<usize> = None;
    let mut belief: Vec<i64> = vec![0; nc];
    // transient outcomes of the server's reads / writes on a client's socket (EINTR, empty-handed or partial transfers)
    let syscall_faults = r.chance(1, 4);
    sc.knobs.insert("syscall_faults".into(), syscall_faults as i64);
    for _ in 0..n {
        let c = r.below(nc as u64) as usize;
        if syscall_faults && r.chance(1, 5) { sc.steps.push(transient_fault(&mut r, nc)); }
        if Some(c) == waiter { continue; }
        match r.weighted(&[12, 3, 26, 10, 12, 6, 2, 2, 5, 10, 3, 5]) {
            0 => { let d = *r.pick(&dbs); belief[c] = d; sc.steps.push(Step::Send { c, a: vec![b("SELECT"), b(&format!("{}", d))], split: vec![] }); }
            1 => { sc.steps.push(Step::Send { c, a: vec![b("SELECT"), b(*r.pick(&["16", "-1", "abc", "99999999999999999999", "", " 1", "1.0", "15x"]))], split: vec![] }); }
            2 => sc.steps.push(Step::Send { c, a: data_cmd(&mut r, &mut uniq, false), split: vec![] }),
            3 => { // transaction, sometimes with a queued SELECT
                sc.steps.push(Step::Send { c, a: vec![b("MULTI")], split: vec![] });
                let k = r.range(1, 5);
                let mut sel: Option<i64> = None;
                for i in 0..k {
                    if i > 0 && sel.is_none() && r.chance(1, 8) { let d = *r.pick(&dbs); sel = Some(d); sc.steps.push(Step::Send { c, a: vec![b("SELECT"), b(&format!("{}", d))], split: vec![] }); }
                    // a queued SELECT of a database that does not exist is refused in its slot and changes nothing for the rest
                    else if r.chance(1, 12) { sc.steps.push(Step::Send { c, a: vec![b("SELECT"), b(*r.pick(&["16", "99", "4096", "-1", "abc"]))], split: vec![] }); }
                    sc.steps.push(Step::Send { c, a: data_cmd(&mut r, &mut uniq, false), split: vec![] });
                }
                if r.chance(7, 8) { sc.steps.push(Step::Send { c, a: vec![b("EXEC")], split: vec![] }); if let Some(d) = sel { belief[c] = d; } } else { sc.steps.push(Step::Send { c, a: vec![b("DISCARD")], split: vec![] }); }
            }
            4 => { // the same commands through a script
                let cmd = data_cmd(&mut r, &mut uniq, true);
                let mut a = if r.chance(1, 3) { vec![b("EVALSHA"), b("@SHA@"), b("0")] } else { vec![b("EVAL"), b(WRAP), b("0")] };
                a.extend(cmd);
                sc.steps.push(Step::Send { c, a, split: vec![] });
            }
            5 => { // blocking pop completed later: a push to the same name in another database must not serve it
                if waiter.is_none() && nc >= 3 {
                    let key = "bl";
                    let t = *r.pick(&["0", "0", "5"]);
                    sc.steps.push(Step::Send { c, a: vec![b(*r.pick(&["BLPOP", "BRPOP"])), b(key), b(t)], split: vec![] });
                    sc.steps.push(Step::Turns { n: 2 });
                    waiter = Some(c);
                    let others: Vec<usize> = (0..nc).filter(|x| *x != c).collect();
                    let (p1, p2) = (others[0], others[1 % others.len()]);
                    // p1 pushes in a different database, p2 in the waiter's
                    let other_db = *dbs.iter().find(|d| **d != belief[c]).unwrap_or(&((belief[c] + 1) % 16));
                    sc.steps.push(Step::Send { c: p1, a: vec![b("SELECT"), b(&format!("{}", other_db))], split: vec![] }); belief[p1] = other_db;
                    uniq += 1;
                    sc.steps.push(Step::Send { c: p1, a: vec![b("RPUSH"), b(key), b(&format!("w{}@DB@", uniq))], split: vec![] });
                    sc.steps.push(Step::Turns { n: 3 });
                    if r.chance(5, 6) {
                        sc.steps.push(Step::Send { c: p2, a: vec![b("SELECT"), b(&format!("{}", belief[c]))], split: vec![] }); belief[p2] = belief[c];
                        uniq += 1;
                        sc.steps.push(Step::Send { c: p2, a: vec![b(*r.pick(&["RPUSH", "LPUSH"])), b(key), b(&format!("w{}@DB@", uniq))], split: vec![] });
                        sc.steps.push(Step::Turns { n: 3 });
                        waiter = None;
                    } else if t == "5" { sc.steps.push(Step::Adv { ns: 6_000_000_000 }); sc.steps.push(Step::Turns { n: 3 }); waiter = None; }
                    // clean the other database's list so that later waiters start from an empty one
                    sc.steps.push(Step::Send { c: p1, a: vec![b("DEL"), b(key)], split: vec![] });
                    sc.steps.push(Step::Turns { n: 1 });
                }
            }
            k @ (6 | 7) => { // FLUSHDB / FLUSHALL through every execution path
                let verb = if k == 6 { "FLUSHDB" } else { "FLUSHALL" };
                match r.below(4) {
                    0 | 1 => sc.steps.push(Step::Send { c, a: vec![b(verb)], split: vec![] }),
                    2 => { for v in ["MULTI", verb, "EXEC"] { sc.steps.push(Step::Send { c, a: vec![b(v)], split: vec![] }); } }
                    _ => {
                        let mut a = if r.chance(1, 3) { vec![b("EVALSHA"), b("@SHA@"), b("0")] } else { vec![b("EVAL"), b(WRAP), b("0")] };
                        a.push(b(verb));
                        sc.steps.push(Step::Send { c, a, split: vec![] });
                    }
                }
            }
            8 => { // look at every database of the run from one connection
                for d in dbs.clone() { sc.steps.push(Step::Send { c, a: vec![b("SELECT"), b(&format!("{}", d))], split: vec![] }); sc.steps.push(Step::Send { c, a: if r.chance(1, 2) { vec![b("DBSIZE")] } else { vec![b("GET"), b("k1")] }, split: vec![] }); belief[c] = d; }
            }
            9 => sc.steps.push(Step::Turns { n: r.range(1, 2) as u32 }),
            11 => { // a watch belongs to the database it was set in, wherever the connection goes afterwards
                if nc >= 2 && waiter != Some((c + 1) % nc) {
                    let o = (c + 1) % nc;
                    let wdb = belief[c];
                    let other_db = *dbs.iter().find(|d| **d != wdb).unwrap_or(&((wdb + 1) % 16));
                    sc.steps.push(Step::Turns { n: 2 });
                    sc.steps.push(Step::Send { c, a: vec![b("WATCH"), b("k1")], split: vec![] });
                    sc.steps.push(Step::Send { c, a: vec![b("SELECT"), b(&format!("{}", other_db))], split: vec![] }); belief[c] = other_db;
                    sc.steps.push(Step::Turns { n: 2 });
                    // the other connection changes k1 in the watched database or in the one the watcher moved to
                    let touch_db = if r.chance(1, 2) { wdb } else { other_db };
                    sc.steps.push(Step::Send { c: o, a: vec![b("SELECT"), b(&format!("{}", touch_db))], split: vec![] }); belief[o] = touch_db;
                    uniq += 1;
                    sc.steps.push(Step::Send { c: o, a: vec![b("SET"), b("k1"), b(&format!("v{}@DB@", uniq))], split: vec![] });
                    sc.steps.push(Step::Turns { n: 2 });
                    for a in [vec![b("MULTI")], vec![b("GET"), b("k1")], vec![b("EXEC")]] { sc.steps.push(Step::Send { c, a, split: vec![] }); }
                    sc.steps.push(Step::Turns { n: 2 });
                }
            }
            _ => { // reconnect: a new connection starts in database 0
                if waiter.is_none() { sc.steps.push(Step::Turns { n: 2 }); sc.steps.push(Step::Close { c, half: false }); sc.steps.push(Step::Connect { c, inst: 0, buf: 0 }); belief[c] = 0; }
            }
        }
        if r.chance(1, 3) { sc.steps.push(Step::Turns { n: 1 }); }
    }
    sc.steps.push(Step::Turns { n: 4 });
    sc
}

fn markers(r: &R, out: &mut Vec<usize>) {
    match r {
        R::Bulk(bs) | R::Simple(bs) => {
            let s = String::from_utf8_lossy(bs);
            let mut rest: &str = &s;
            while let Some(p) = rest.find("@db") { let t = &rest[p + 3..]; if let Some(q) = t.find('@') { if let Ok(d) = t[..q].parse::<usize>() { out.push(d); } rest = &t[q..]; } else { break; } }
        }
        R::Arr(v) | R::Set(v) => for e in v { markers(e, out); },
        R::Map(v) => for (k, e) in v { markers(k, out); markers(e, out); },
        _ => {}
    }
}

pub fn exec(sc: &Scenario) -> Outcome {
    let mut h = H::new(sc);
    h.sim.preempt_permille = sc.knob("preempt", 0) as u32;
    if let Err(e) = h.boot(&sc.cfg, "a") { return Outcome { verdict: "harness".into(), note: e, ..Default::default() }; }
    let mut m = Multi::new(h, "C18");
    m.select_in_exec = true;
    let mut seen = 0usize;
    let mut tainted_exec = false;
    for (i, st) in sc.steps.iter().enumerate() {
        m.h.step_no = i;
        if m.h.dead.is_some() { break; }
        match st {
            Step::Connect { c, .. } => m.connect(*c),
            Step::Send { c, a, .. } => {
                let quiet = m.cl.get(c).map_or(false, |cl| cl.inflight.is_empty() && cl.multi.is_none() && cl.blocked.is_none());
                let db = m.cl.get(c).map_or(0, |cl| cl.db);
                let sha = m.scripts.keys().next().cloned();
                let mut args: Vec<Vec<u8>> = Vec::new();
                for x in a {
                    let t = String::from_utf8_lossy(&x.0).to_string();
                    if t == "@SHA@" { args.push(sha.clone().unwrap_or_else(|| b"0000000000000000000000000000000000000000".to_vec())); }
                    else if t.contains("@DB@") { args.push(t.replace("@DB@", &if quiet { format!("@db{}@", db) } else { "@dbX@".to_string() }).into_bytes()); }
                    else { args.push(x.0.clone()); }
                }
                if args[0] == b"EVALSHA" && sha.is_none() { args[0] = b"EVAL".to_vec(); args[1] = WRAP.as_bytes().to_vec(); }
                m.send(*c, &args);
            }
            Step::Turns { n } => m.turns(*n),
            Step::Arm { fop, conn: Some(c), nth, action, .. } => m.arm(*c, *fop, *nth, *action),
            Step::Close { c, .. } => { m.close(*c); m.turns(2); }
            Step::Adv { ns } => m.h.sim.advance(*ns),
            _ => {}
        }
        // model-independent oracle: every stored value names the database it was written in; no reply may carry
        // a value that names another database than the one its connection had selected
        while seen < m.history.len() {
            let d = m.history[seen].clone();
            seen += 1;
            let verb = upper(&d.args[0]);
            if verb == "EXEC" { tainted_exec = true; }
            let mut ms = Vec::new();
            if let Some(rep) = &d.reply { markers(rep, &mut ms); }
            if ms.is_empty() { continue; }
            m.h.count("replies_with_database_marker", 1);
            if verb == "EXEC" { continue; } // a queued SELECT may have moved the batch: the model judges EXEC replies
            if let Some(bad) = ms.iter().find(|x| **x != d.db) {
                let path = if d.blocked { format!("served-{}", verb) } else if verb == "EVAL" || verb == "EVALSHA" { format!("{}:{}", verb, d.args.get(3).map(|a| upper(a)).unwrap_or_default()) } else { verb.clone() };
                m.h.violate(format!("C18/foreign-value/{}", path), format!("client {} with database {} selected: `{}` returned a value written in database {}: {}", d.c, d.db, show_cmd(&d.args), bad, d.reply.as_ref().map(|r| r.short()).unwrap_or_default()));
            }
        }
    }
    let _ = tainted_exec;
    m.settle(10);
    if m.stalled_turns > 6 { m.h.violate("C18/reply-missing".into(), "a consumed request got no reply within 6 turns".into()); }
    m.finish(sc.seed)
}

pub static DEF: CheckDef = CheckDef {
    id: "C18", level: "exploration", gen, exec,
    nontrivial: |o| o.counters.get("cmds").copied().unwrap_or(0) >= 12,
    rule: "one run = 2-4 connections moving among 2-4 of the 16 databases (usually incl. 0) and running every command family (strings, keys, lists, sets incl. multi-key algebra and SMOVE/RPOPLPUSH/RENAME/MGET/MSET, hashes, sorted sets, streams, DBSIZE/KEYS) on the same key names in each of them through every execution path: directly, queued in MULTI/EXEC (sometimes with a queued SELECT, also of a non-existent database), through EVAL and EVALSHA of a pass-through script, and as BLPOP/BRPOP completed later while another connection first pushes to the same name in a different database and then in the waiter's; SELECT of invalid indexes (16, -1, non-numeric, overflow, padded); FLUSHDB / FLUSHALL (directly, in MULTI/EXEC, from a script); reconnects (fresh connections start in 0). The simulator derives the execution order from the transport seam and feeds it to a 16-database reference model with per-connection selection; oracle: every reply equals the model's for the database selected on that connection at that time, the canonical dump of all 16 databases equals the model after every turn (a script may only differ from the direct command inside its own database), a waiter is served only from its own database, and - independently of the model - no reply carries a value whose embedded tag names another database than the connection's; in a quarter to a third of the runs single reads / writes of the server on a client's socket are made to fail with EINTR, to come back empty-handed (EAGAIN, reads only) or to transfer only 1..100 bytes (fault injection at the libc boundary) - transient outcomes that must not change any reply or the dataset; non-trivial = at least 12 commands",
    quick_budget_s: 40.0, thorough_budget_s: 900.0, quick_max_runs: 1_000_000, thorough_max_runs: 100_000_000, exhaustive: false, exhaustive_after: |_| 0,
    real: REAL_WHOLE_SERVER, stub: STUB_WHOLE_SERVER, assumptions: ASSUME_COMMON,
};
