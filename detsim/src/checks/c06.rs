//! C06 — no client input can crash, hang or wedge the server.
use super::*;
use crate::alloc_seam;
use crate::harness::*;
use crate::resp::{self, R};
use crate::scenario::*;
use crate::sim::*;

/// Commands that are *meant* to stop, stall or reconfigure the server (not hostile inputs), or that
/// would leave the simulated world (outbound replication connections).
const EXCLUDED: &[&str] = &["SHUTDOWN", "SLEEP", "DEBUG", "REPLICAOF", "SLAVEOF", "FLUSHALL", "FLUSHDB", "QUIT", "CONFIG", "MONITOR", "SYNC", "PSYNC", "REPLCONF", "FAILOVER", "SWAPDB"];

/// Command table: extracted from the dispatch `match` arms of /repo's server.rs at generation time
/// (new commands enter automatically), merged with a static list.
pub fn command_table() -> Vec<String> {
    let mut names: std::collections::BTreeSet<String> = ["PING", "ECHO", "SET", "GET", "MULTI", "EXEC", "DISCARD", "WATCH", "UNWATCH", "PUBLISH", "SUBSCRIBE", "UNSUBSCRIBE", "PSUBSCRIBE", "PUNSUBSCRIBE", "SCRIPT",
        "OBJECT", "COMMAND", "TIME", "WAIT", "UNLINK", "TOUCH", "COPY", "GETDEL", "GETEX", "INCRBYFLOAT", "LPUSHX", "RPUSHX", "LINSERT", "RPOPLPUSH", "LMOVE", "SMOVE", "SINTERSTORE", "SUNIONSTORE", "SDIFFSTORE",
        "HSETNX", "HSTRLEN", "HINCRBYFLOAT", "ZRANGESTORE", "ZUNIONSTORE", "ZINTERSTORE", "ZREMRANGEBYRANK", "ZREMRANGEBYSCORE", "ZMSCORE", "XAUTOCLAIM", "XSETID", "BITCOUNT", "SETBIT", "GETBIT", "PFADD", "GEOADD"]
        .iter().map(|s| s.to_string()).collect();
    for f in ["/repo/src/network/server.rs", "/repo/src/storage/commands/executor.rs"] {
        if let Ok(src) = std::fs::read_to_string(f) {
            for line in src.lines() {
                let t = line.trim_start();
                if !t.starts_with('"') || !t.contains("=>") { continue; }
                let head = &t[..t.find("=>").unwrap()];
                for part in head.split('|') {
                    let p = part.trim();
                    if p.len() >= 4 && p.starts_with('"') && p.ends_with('"') {
                        let n = &p[1..p.len() - 1];
                        if n.len() >= 2 && n.len() <= 20 && n.chars().all(|c| c.is_ascii_uppercase()) { names.insert(n.to_string()); }
                    }
                }
            }
        }
    }
    names.into_iter().filter(|n| !EXCLUDED.contains(&n.as_str())).collect()
}

pub const BOUNDARY: &[&str] = &["", "0", "1", "-1", "2", "-2", "9223372036854775807", "-9223372036854775808", "9223372036854775808", "-9223372036854775809", "18446744073709551615", "18446744073709551616",
    "4294967295", "4294967296", "2147483647", "2147483648", "-2147483649", "1e400", "-1e400", "1e308", "nan", "inf", "-inf", "0.0005", "-0.0", "1.5", "abc", "*", "$", "(1", "[1", "+", "-", "COUNT", "MATCH", "WITHSCORES", "LIMIT", "BLOCK", "STREAMS", "MKSTREAM", "MAXLEN", "~", "=", ">", "0-0", "18446744073709551615-18446744073709551615", "1-*", "-", "+", "99999999999999999999999999999999999999999999999999"];

const KEYS: &[&str] = &["kstr", "klist", "kset", "khash", "kzset", "kstream", "kmissing", "knum", "kbig"];

fn fixtures() -> Vec<Vec<B>> {
    let mut v = vec![
        vec![b("SET"), b("kstr"), b("hello")], vec![b("RPUSH"), b("klist"), b("a"), b("b"), b("c")], vec![b("SADD"), b("kset"), b("a"), b("b"), b("c")],
        vec![b("HSET"), b("khash"), b("f"), b("1"), b("g"), b("x")], vec![b("ZADD"), b("kzset"), b("1"), b("a"), b("2"), b("b")], vec![b("XADD"), b("kstream"), b("1-1"), b("f"), b("v")],
        vec![b("XGROUP"), b("CREATE"), b("kstream"), b("g1"), b("0")], vec![b("SET"), b("knum"), b("10")], vec![b("SET"), b("kbig"), B(vec![b'z'; 70_000])],
    ];
    // sentinel data in another database, checked after the hostile input
    v.push(vec![b("SELECT"), b("15")]);
    v.push(vec![b("SET"), b("sentinel:str"), b("intact")]);
    v.push(vec![b("RPUSH"), b("sentinel:list"), b("x"), b("y")]);
    v.push(vec![b("SELECT"), b("0")]);
    v
}

/// Commands whose interesting failures need several well-formed arguments at once: templates with
/// typed holes (K key, G group, C consumer, ID stream id, N number, S string) filled from boundary pools.
const TEMPLATES: &[&str] = &[
    "XPENDING K G ID ID N", "XPENDING K G ID ID N C", "XPENDING K G", "XCLAIM K G C N ID", "XCLAIM K G C N ID ID JUSTID", "XCLAIM K G C N ID FORCE", "XCLAIM K G C N ID IDLE N RETRYCOUNT N",
    "XAUTOCLAIM K G C N ID COUNT N", "XAUTOCLAIM K G C N ID COUNT N JUSTID", "XREADGROUP GROUP G C COUNT N STREAMS K ID", "XREADGROUP GROUP G C NOACK STREAMS K K ID ID", "XREAD COUNT N STREAMS K ID",
    "XREAD STREAMS K K ID ID", "XRANGE K ID ID COUNT N", "XREVRANGE K ID ID COUNT N", "XADD K ID S S", "XADD K ID S S S S", "XTRIM K MAXLEN N", "XTRIM K MAXLEN ~ N", "XTRIM K MINID ID", "XDEL K ID ID",
    "XGROUP CREATE K G ID MKSTREAM", "XGROUP CREATE K G ID", "XGROUP SETID K G ID", "XGROUP DELCONSUMER K G C", "XGROUP DESTROY K G", "XGROUP CREATECONSUMER K G C", "XINFO STREAM K", "XINFO GROUPS K", "XINFO CONSUMERS K G",
    "XACK K G ID ID", "XLEN K", "ZRANGEBYSCORE K N N LIMIT N N", "ZREVRANGEBYSCORE K N N WITHSCORES LIMIT N N", "ZRANGE K N N WITHSCORES", "ZREVRANGE K N N", "ZADD K N S N S", "ZINCRBY K N S", "ZCOUNT K N N",
    "ZPOPMIN K N", "ZPOPMAX K N", "ZRANK K S", "SCAN N MATCH S COUNT N TYPE S", "SCAN N COUNT N", "HSCAN K N MATCH S COUNT N", "SSCAN K N COUNT N", "ZSCAN K N MATCH S COUNT N", "SETRANGE K N S", "GETRANGE K N N",
    "LRANGE K N N", "LTRIM K N N", "LSET K N S", "LINDEX K N", "LREM K N S", "SRANDMEMBER K N", "SPOP K N", "EXPIRE K N", "PEXPIRE K N", "SETEX K N S", "PSETEX K N S", "SET K S EX N", "SET K S PX N", "SET K S PX N NX",
    "CALL SETBIT K N N", "CALL SETBIT K N 1", "CALL GETBIT K N", "CALL BITCOUNT K N N", "CALL BITCOUNT K", "CALL CONFIG GET S", "CALL TIME", "CALL INFO S",
    "INCRBY K N", "DECRBY K N", "HINCRBY K S N", "SELECT N", "EVAL S N K K", "EVAL S N", "EVALSHA S N K", "MEMORY USAGE K", "OBJECT ENCODING K", "RENAME K K", "RENAMENX K K", "MSET K S K S", "HMGET K S S", "HSET K S S S S",
];
const IDS: &[&str] = &["0", "0-0", "0-1", "1-1", "1-0", "1-2", "5-5", "-", "+", "$", ">", "*", "18446744073709551615-18446744073709551615", "18446744073709551615-0", "18446744073709551616-0", "1-18446744073709551616", "1-", "-1", "abc", "(1-1", "1-1-1", ""];

fn templated(r: &mut Rng) -> Vec<B> {
    let t = *r.pick(TEMPLATES);
    // "CALL ..." = commands that only the script path implements: sent through redis.call
    let (prefix, t): (Vec<B>, &str) = match t.strip_prefix("CALL ") { Some(rest) => (vec![b("EVAL"), b("return redis.call(unpack(ARGV))"), b("0")], rest), None => (vec![], t) };
    prefix.into_iter().chain(t.split(' ').map(|tok| match tok {
        "K" => b(*r.pick(KEYS)),
        "G" => b(*r.pick(&["g1", "g1", "nogroup", ""])),
        "C" => b(*r.pick(&["c1", "c2", ""])),
        "ID" => b(*r.pick(IDS)),
        "N" => if r.chance(1, 2) { b(*r.pick(BOUNDARY)) } else { b(*r.pick(&["0", "1", "2", "10", "-1", "100"])) },
        "S" => b(*r.pick(&["a", "f", "m1", "*", "", "return 1", "return redis.call('PING')", "string", "zset", "k*", "[", "\\"])),
        lit => b(lit),
    })).collect()
}

fn hostile_frame(r: &mut Rng) -> Vec<u8> {
    match r.below(16) {
        0 => b"*2147483647\r\n".to_vec(),
        1 => b"*9223372036854775807\r\n$1\r\na\r\n".to_vec(),
        2 => b"$9223372036854775807\r\n".to_vec(),
        3 => b"*1\r\n$2147483647\r\nabc".to_vec(),
        4 => b"%9223372036854775807\r\n".to_vec(),
        5 => b"~4611686018427387904\r\n".to_vec(),
        6 => { let n = *r.pick(&[1000usize, 20_000, 200_000]); let mut v = Vec::new(); for _ in 0..n { v.extend_from_slice(b"*1\r\n"); } v }
        7 => b"*3\r\n$3\r\nSET\r\n$1\r\nk".to_vec(), // truncated, then close
        8 => b"*1\r\n$18446744073709551616\r\n".to_vec(),
        9 => { let mut v = b"*1\r\n$4\r\nPING\r\n".to_vec(); v.extend(r.bytes(40)); v }
        10 => r.bytes(200),
        11 => b"*-9223372036854775808\r\n".to_vec(),
        12 => b"*1\r\n$-9223372036854775808\r\n".to_vec(),
        13 => { let mut v = Vec::new(); for _ in 0..5000 { v.extend_from_slice(b"%1\r\n~1\r\n"); } v }
        14 => b":99999999999999999999999999\r\n".to_vec(),
        _ => b"*2\r\n$4\r\nECHO\r\n$2147483648\r\n".to_vec(),
    }
}

pub fn gen(seed: u64, idx: u64, tier: Tier) -> Scenario {
    let mut r = Rng::new(seed);
    let mut sc = Scenario::new("C06", seed);
    let table = command_table();
    sc.steps.push(Step::Connect { c: 0, inst: 0, buf: 0 });
    for a in fixtures() { sc.steps.push(Step::Cmd { c: 0, a, split: vec![] }); }
    if idx == 5 {
        // (f) one run of every batch: a script that never ends. Nothing else runs in it, and a quantum that has not come
        // back after 4 s of real time is a hang (elsewhere 30 s) - a recorded finding, see known_findings.txt
        sc.knobs.insert("watchdog_s".into(), 4);
        sc.steps.push(Step::Connect { c: 1, inst: 0, buf: 0 });
        sc.steps.push(Step::Cmd { c: 1, a: vec![b("EVAL"), b(ENDLESS), b("0")], split: vec![] });
        sc.steps.push(Step::Ctl { name: "probe".into(), n: 1, a: vec![] });
        return sc;
    }
    let n = match tier { Tier::Quick => 60, Tier::Thorough => 150 };
    // systematic walk: the run index selects a window of the (command x position x boundary value) space
    let space = table.len() as u64 * 4 * BOUNDARY.len() as u64;
    let mut cursor = (idx * n as u64) % space.max(1);
    for i in 0..n {
        let mode = if idx % 3 == 2 { r.below(5) } else if idx % 3 == 1 { 5 } else { 0 };
        match mode {
            0 | 1 => {
                // boundary enumeration: command c, argument position p gets boundary value v, the rest plausible
                let (ci, rest) = ((cursor / (4 * BOUNDARY.len() as u64)) as usize % table.len(), cursor % (4 * BOUNDARY.len() as u64));
                let (pos, vi) = ((rest / BOUNDARY.len() as u64) as usize, (rest % BOUNDARY.len() as u64) as usize);
                cursor = (cursor + 1 + if mode == 1 { r.below(space) } else { 0 }) % space.max(1);
                let name = &table[ci];
                let nargs = r.range(pos as i64 + 1, 5) as usize;
                let mut a = vec![b(name)];
                for p in 0..nargs {
                    if p == pos { a.push(b(BOUNDARY[vi])); }
                    else if p == 0 { a.push(b(*r.pick(KEYS))); }
                    else { a.push(b(*r.pick(&["0", "1", "2", "a", "f", "g1", "c1", "10", "-1", "kstr", "klist", "kzset", "kstream", "*", "$", ">", "0-0", "COUNT", "STREAMS"]))); }
                }
                let wrap = r.below(12);
                if wrap == 0 { // inside MULTI/EXEC
                    sc.steps.push(Step::Cmd { c: 1, a: vec![b("MULTI")], split: vec![] });
                    sc.steps.push(Step::Cmd { c: 1, a, split: vec![] });
                    sc.steps.push(Step::Cmd { c: 1, a: vec![b("EXEC")], split: vec![] });
                } else if wrap == 1 { // through redis.call
                    let mut e = vec![b("EVAL"), b("return redis.call(unpack(ARGV))"), b("0")];
                    e.extend(a);
                    sc.steps.push(Step::Cmd { c: 1, a: e, split: vec![] });
                } else {
                    sc.steps.push(Step::Cmd { c: 1, a, split: vec![] });
                }
            }
            2 => { // random command with several boundary arguments
                let name = r.pick(&table).clone();
                let mut a = vec![b(&name)];
                for p in 0..r.range(0, 6) { if p == 0 && r.chance(3, 4) { a.push(b(*r.pick(KEYS))); } else { a.push(b(*r.pick(BOUNDARY))); } }
                sc.steps.push(Step::Cmd { c: 1, a, split: vec![] });
            }
            5 => { // structured commands: every hole filled from the boundary pools, a delivered entry to claim / acknowledge
                if i == 0 { sc.steps.push(Step::Cmd { c: 1, a: vec![b("XREADGROUP"), b("GROUP"), b("g1"), b("c1"), b("STREAMS"), b("kstream"), b(">")], split: vec![] }); }
                let a = templated(&mut r);
                if r.chance(1, 10) { let mut e = vec![b("EVAL"), b("return redis.call(unpack(ARGV))"), b("0")]; e.extend(a); sc.steps.push(Step::Cmd { c: 1, a: e, split: vec![] }); }
                else { sc.steps.push(Step::Cmd { c: 1, a, split: vec![] }); }
            }
            3 => { // byte-level hostile frame on its own connection, optionally closed right after
                let c = 10 + i as usize;
                sc.steps.push(Step::Connect { c, inst: 0, buf: 0 });
                sc.steps.push(Step::Raw { c, data: B(hostile_frame(&mut r)), split: vec![] });
                sc.steps.push(Step::Turns { n: r.range(1, 4) as u32 });
                if r.chance(1, 2) { sc.steps.push(Step::Close { c, half: r.chance(1, 3) }); }
            }
            _ if r.chance(1, 3) => { // a client blocked on a key that another client then turns into something that cannot be popped
                let c = 10 + i as usize;
                sc.steps.push(Step::Connect { c, inst: 0, buf: 0 });
                let key = format!("kwait{}", i);
                sc.steps.push(Step::Send { c, a: vec![b(*r.pick(&["BLPOP", "BRPOP"])), b(&key), b(*r.pick(&["0", "5"]))], split: vec![] });
                sc.steps.push(Step::Turns { n: 2 });
                let a = match r.below(6) { 0 => vec![b("SET"), b(&key), b("v")], 1 => vec![b("SADD"), b(&key), b("m")], 2 => vec![b("HSET"), b(&key), b("f"), b("v")], 3 => vec![b("ZADD"), b(&key), b("1"), b("m")], 4 => vec![b("XADD"), b(&key), b("*"), b("f"), b("v")], _ => vec![b("RENAME"), b(*r.pick(&["kstr", "khash", "kzset"])), b(&key)] };
                sc.steps.push(Step::Cmd { c: 1, a, split: vec![] });
                sc.steps.push(Step::Turns { n: 2 });
                if r.chance(1, 2) { sc.steps.push(Step::Cmd { c: 1, a: vec![b("DEL"), b(&key)], split: vec![] }); sc.steps.push(Step::Cmd { c: 1, a: vec![b("RPUSH"), b(&key), b("x")], split: vec![] }); sc.steps.push(Step::Turns { n: 2 }); }
                if r.chance(1, 2) { sc.steps.push(Step::Close { c, half: false }); sc.steps.push(Step::Turns { n: 2 }); }
            }
            _ => { // a blocked or subscribed or mid-transaction connection that goes away
                let c = 10 + i as usize;
                sc.steps.push(Step::Connect { c, inst: 0, buf: 0 });
                let a = match r.below(4) { 0 => vec![b("BLPOP"), b("nolist"), b(*r.pick(&["0", "0.01", "5"]))], 1 => vec![b("SUBSCRIBE"), b("ch")], 2 => vec![b("MULTI")], _ => vec![b("WATCH"), b("kstr")] };
                sc.steps.push(Step::Send { c, a, split: vec![] });
                sc.steps.push(Step::Turns { n: 2 });
                sc.steps.push(Step::Close { c, half: false });
                sc.steps.push(Step::Turns { n: 2 });
            }
        }
        if i % 10 == 9 { sc.steps.push(Step::Ctl { name: "probe".into(), n: 0, a: vec![] }); }
    }
    if r.chance(1, 12) {
        // (e) inputs whose cost explodes in a naive implementation: a glob with many stars against a text that almost matches
        let pat = format!("{}*b", "*a".repeat(r.range(14, 24) as usize));
        let text = "a".repeat(r.range(40, 80) as usize);
        match r.below(4) {
            0 => {
                sc.steps.push(Step::Connect { c: 90, inst: 0, buf: 0 });
                sc.steps.push(Step::Send { c: 90, a: vec![b("PSUBSCRIBE"), b(&pat)], split: vec![] });
                sc.steps.push(Step::Turns { n: 2 });
                sc.steps.push(Step::Cmd { c: 1, a: vec![b("PUBLISH"), b(&text), b("x")], split: vec![] });
            }
            1 => { sc.steps.push(Step::Cmd { c: 1, a: vec![b("SET"), b(&text), b("1")], split: vec![] }); sc.steps.push(Step::Cmd { c: 1, a: vec![b("KEYS"), b(&pat)], split: vec![] }); }
            2 => { sc.steps.push(Step::Cmd { c: 1, a: vec![b("SET"), b(&text), b("1")], split: vec![] }); sc.steps.push(Step::Cmd { c: 1, a: vec![b("SCAN"), b("0"), b("MATCH"), b(&pat), b("COUNT"), b("1000")], split: vec![] }); }
            _ => { sc.steps.push(Step::Cmd { c: 1, a: vec![b("HSET"), b("kh2"), b(&text), b("1")], split: vec![] }); sc.steps.push(Step::Cmd { c: 1, a: vec![b("HSCAN"), b("kh2"), b("0"), b("MATCH"), b(&pat)], split: vec![] }); }
        }
    }
    sc.steps.push(Step::Adv { ns: 1_200_000_000 });
    sc.steps.push(Step::Ctl { name: "probe".into(), n: 1, a: vec![] });
    sc
}

fn probe(h: &mut H, final_probe: bool, last: &str, sent_since: &mut usize, sentinels: (bool, bool)) {
    if h.dead.is_some() { return; }
    let mx = alloc_seam::reset_max();
    // (a single string may legitimately grow to Redis' 512 MB limit from a few request bytes - SETRANGE, SETBIT, APPEND;
    // anything beyond that is sized by a number the client merely declared; and a reply that carries such a value -
    // GETRANGE k 0 -1 - is serialised into a growable buffer, which doubles: 2 x 512 MiB plus the header)
    let allowed = (1088usize << 20) + 8 * *sent_since;
    if mx > allowed {
        h.violate(format!("C06/alloc-bomb/{}", last), format!("largest single allocation since the last probe: {} bytes for {} request bytes (last command: {})", mx, sent_since, last));
    }
    *sent_since = 0;
    // a NEW connection must be served normally and previously stored data must be intact
    let c = h.connect(9000 + h.step_no, h.inst, 0);
    let pong = h.cmd(c, &[b"PING".to_vec()], &[]).reply;
    if pong != Some(R::Simple(b"PONG".to_vec())) {
        if h.dead.is_none() { h.violate(format!("C06/wedged/no-pong/{}", last), format!("a new connection got {:?} for PING after the hostile input (last command: {})", pong.map(|r| r.short()), last)); }
        return;
    }
    let _ = h.cmd(c, &[b"SELECT".to_vec(), b"15".to_vec()], &[]);
    // (a minimised scenario may have lost the steps that store the sentinel data: only what was stored is checked)
    let g = h.cmd(c, &[b"GET".to_vec(), b"sentinel:str".to_vec()], &[]).reply;
    if sentinels.0 && g != Some(R::Bulk(b"intact".to_vec())) { h.violate(format!("C06/data-damaged/{}", last), format!("GET sentinel:str -> {:?}", g.map(|r| r.short()))); }
    let l = h.cmd(c, &[b"LRANGE".to_vec(), b"sentinel:list".to_vec(), b"0".to_vec(), b"-1".to_vec()], &[]).reply;
    if sentinels.1 && l != Some(R::Arr(vec![R::Bulk(b"x".to_vec()), R::Bulk(b"y".to_vec())])) { h.violate(format!("C06/data-damaged/{}", last), format!("LRANGE sentinel:list -> {:?}", l.map(|r| r.short()))); }
    h.sim.close(c, CloseHow::Close);
    h.count("probes", 1);
    let _ = final_probe;
}

pub fn exec(sc: &Scenario) -> Outcome {
    let mut h = H::new(sc);
    if let Err(e) = h.boot(&sc.cfg, "a") { return Outcome { verdict: "harness".into(), note: e, ..Default::default() }; }
    alloc_seam::LIMIT.store(8 << 30, std::sync::atomic::Ordering::SeqCst);
    alloc_seam::reset_max();
    if sc.knob("watchdog_s", 0) > 0 { crate::world::g().watchdog_ns = sc.knob("watchdog_s", 0) as u64 * 1_000_000_000; }
    let mut last = String::from("-");
    let mut sent_since = 0usize;
    let mut sentinels = (false, false);
    for (i, st) in sc.steps.iter().enumerate() {
        h.step_no = i;
        if h.dead.is_some() { break; }
        match st {
            Step::Connect { c, inst, buf } => { h.connect(*c, *inst, *buf); }
            Step::Cmd { c, a, split } => {
                let args = args_of(a);
                let ci = match h.cl(*c) { Some(x) if !h.sim.clients[x].eof && !h.sim.clients[x].closed => x, _ => h.connect(*c, h.inst, 0) };
                if *c != 0 { last = verb_of(&args); alloc_seam::set_context(&last); sent_since += args.iter().map(|x| x.len() + 16).sum::<usize>(); }
                let r = h.cmd(ci, &args, split);
                if *c == 0 && args.len() > 2 && matches!(&r.reply, Some(x) if !x.is_err()) { if args[1] == b"sentinel:str" { sentinels.0 = true; } if args[1] == b"sentinel:list" { sentinels.1 = true; } }
                h.count("cmds", 1);
                h.note(format!("c{} {} -> {}", c, show_cmd(&args), r.reply.as_ref().map(|x| x.short()).unwrap_or_else(|| "NO REPLY".into())));
                if r.reply.is_none() && h.dead.is_none() {
                    // a blocking command legitimately has no immediate reply; everything else must answer (C05's
                    // subject, counted here as a probe only) -- but the connection must not have wedged the server
                    h.count("no_reply", 1);
                    if h.sim.clients[ci].eof { h.sim.close(ci, CloseHow::Close); }
                    else if matches!(last.as_str(), "BLPOP" | "BRPOP" | "XREAD" | "XREADGROUP" | "SUBSCRIBE" | "PSUBSCRIBE" | "WAIT") || true { h.sim.close(ci, CloseHow::Close); }
                }
            }
            Step::Send { c, a, .. } => { if let Some(ci) = h.cl(*c) { let args = args_of(a); last = verb_of(&args); let d = resp::encode_cmd(&args); sent_since += d.len(); h.send_bytes(ci, &d, &[]); } }
            Step::Raw { c, data, split } => { if let Some(ci) = h.cl(*c) { last = format!("RAW:{}", data.0.iter().take(3).map(|b| if b.is_ascii_graphic() { *b as char } else { '.' }).collect::<String>()); alloc_seam::set_context(&last); sent_since += data.0.len(); h.send_bytes(ci, &data.0, split); h.count("hostile_frames", 1); } }
            Step::Turns { n } => { for _ in 0..*n { h.turn(); } }
            Step::Adv { ns } => h.sim.advance(*ns),
            Step::Close { c, half } => { if let Some(ci) = h.cl(*c) { h.sim.close(ci, if *half { CloseHow::HalfClose } else { CloseHow::Close }); } h.turn(); }
            Step::Ctl { name, n, .. } if name == "probe" => probe(&mut h, *n == 1, &last, &mut sent_since, sentinels),
            _ => {}
        }
    }
    h.health_violations("C06");
    // a panic inside std (capacity overflow, Duration conversion, ...) is only attributable through the command that ran last
    for v in h.violations.iter_mut() { if v.class.starts_with("C06/panic/") { v.class = format!("{}/{}", v.class.replace("/rustc/59807616e1fa2540724bfbac14d7976d7e4a3860/", "std:"), last); v.detail = format!("{} :: last input `{}`", v.detail.replace('\n', " "), last); } }
    // make the death attributable: which verb ran last
    if h.dead.is_some() { let v: Vec<String> = h.violations.iter().map(|v| v.class.clone()).collect(); if v.iter().any(|c| c.ends_with("/hang") || c.ends_with("/deadlock") || c.ends_with("/server-loop-ended")) { let cl = format!("C06/{}/{}", v.iter().find(|c| c.ends_with("/hang") || c.ends_with("/deadlock") || c.ends_with("/server-loop-ended")).unwrap().rsplit('/').next().unwrap(), last); h.violations.retain(|x| !(x.class.ends_with("/hang") || x.class.ends_with("/deadlock") || x.class.ends_with("/server-loop-ended"))); h.violate(cl, format!("after `{}`", last)); } }
    h.finish(sc.seed)
}

const ENDLESS: &str = "while true do end";
fn verb_of(args: &[Vec<u8>]) -> String {
    let v: String = args.first().map(|a| String::from_utf8_lossy(a).to_uppercase()).unwrap_or_default();
    if v == "EVAL" && args.len() > 1 && args[1] == ENDLESS.as_bytes() { return "EVAL:endless-loop".into(); }
    if v == "EVAL" && args.len() > 3 && args[1] == b"return redis.call(unpack(ARGV))" { format!("EVAL:{}", String::from_utf8_lossy(&args[3]).to_uppercase()) } else { v }
}

pub static DEF: CheckDef = CheckDef {
    id: "C06", level: "exploration", gen, exec,
    nontrivial: |o| o.counters.get("cmds").copied().unwrap_or(0) + o.counters.get("hostile_frames").copied().unwrap_or(0) >= 20 && o.counters.get("probes").copied().unwrap_or(0) >= 1,
    rule: "one run = 60-150 hostile inputs against a server holding keys of all six types and sentinel data: (a0) in every third run, 80 multi-argument command templates (stream, consumer-group, sorted-set range, scan, index, expiry, script commands) whose typed holes - key, group, consumer, stream id, number, string - are filled from boundary pools; (a) a systematic walk, indexed by the run number, over (every command name extracted from the dispatch match arms of /repo's server.rs and executor.rs at check time + a static list) x argument position x 50 boundary values (0, +-1, i64/u64/u32 bounds and beyond, 1e400, nan, inf, huge digit strings, option keywords, stream-id forms), sent directly, inside MULTI/EXEC and through redis.call; (b) random commands with several boundary arguments; (c) byte-level hostile frames (absurd declared lengths, 200k-deep nesting, truncated frames then close, random bytes); (d) blocked/subscribed/mid-transaction connections that vanish, and clients blocked on a key under which another client then stores a string / set / hash / sorted set / stream or renames one; (e) in a twelfth of the runs a glob pattern with 14-24 stars against a 40-80 byte text that almost matches, through PSUBSCRIBE+PUBLISH, KEYS, SCAN MATCH and HSCAN MATCH (exponential backtracking would stall the single command thread); (f) in one run of every batch a script that never ends (`while true do end`). Oracle after every 10 inputs and at the end: no thread of the server panicked, no exit(), no deadlock, no hang (watchdog), largest single allocation <= 2 x the server's own 512 MiB value cap + 64 MiB + 8 x bytes sent (allocator seam; a request for more than 8 GiB is refused, which aborts the process), and a NEW connection gets PONG and reads the sentinel data intact; non-trivial = at least 20 hostile inputs and one probe; distinct = distinct event-log hash",
    quick_budget_s: 45.0, thorough_budget_s: 1200.0, quick_max_runs: 1_000_000, thorough_max_runs: 100_000_000, exhaustive: false, exhaustive_after: |_| 0,
    real: REAL_WHOLE_SERVER, stub: STUB_WHOLE_SERVER, assumptions: ASSUME_COMMON,
};
