//! C07 — MULTI/EXEC runs the queued commands atomically, in order, or not at all.
use super::multi::Multi;
use super::*;
use crate::harness::*;
use crate::scenario::*;

fn plain(r: &mut Rng, uniq: &mut u64) -> Vec<B> {
    *uniq += 1;
    let acct = |r: &mut Rng| b(*r.pick(&["acct:a", "acct:b", "acct:c"]));
    match r.below(15) {
        14 => vec![b("PUBLISH"), b("nobody-listens"), b(&format!("p{}", uniq))],
        0 => vec![b("SET"), b(*r.pick(&["s1", "s2"])), b(&format!("v{}", uniq))],
        1 => vec![b("GET"), b(*r.pick(&["s1", "s2", "acct:a"]))],
        2 => vec![b("INCR"), acct(r)],
        3 => vec![b("INCRBY"), acct(r), b(&format!("{}", r.range(-5, 5)))],
        4 => vec![b("APPEND"), b(*r.pick(&["s1", "s2"])), b(&format!("x{}", uniq))],
        5 => vec![b("RPUSH"), b("q"), b(&format!("e{}", uniq))],
        6 => vec![b("LPUSH"), b("q"), b(&format!("e{}", uniq))],
        7 => vec![b("LPOP"), b("q")],
        8 => vec![b("LLEN"), b("q")],
        9 => vec![b("LRANGE"), b("q"), b("0"), b("-1")],
        10 => vec![b("MGET"), b("acct:a"), b("acct:b"), b("acct:c")],
        11 => vec![b("SADD"), b("set"), b(&format!("m{}", r.below(6)))],
        12 => vec![b("DEL"), b(*r.pick(&["s1", "s2", "set"]))],
        _ => vec![b("SMEMBERS"), b("set")],
    }
}
fn failing(r: &mut Rng) -> Vec<B> {
    match r.below(5) { 0 => vec![b("INCR"), b("q")], 1 => vec![b("LPUSH"), b("s1"), b("x")], 2 => vec![b("INCR"), b("s1")], 3 => vec![b("SADD"), b("q"), b("x")], _ => vec![b("ZINCRBY"), b("s1"), b("1"), b("m")] }
}

pub fn gen(seed: u64, _idx: u64, tier: Tier) -> Scenario {
    let mut r = Rng::new(seed);
    let mut sc = Scenario::new("C07", seed);
    sc.knobs.insert("preempt".into(), *r.pick(&[0, 0, 50, 300]));
    let nc = r.range(2, 4) as usize;
    for c in 0..nc { sc.steps.push(Step::Connect { c, inst: 0, buf: 0 }); }
    // accounts with an invariant sum, a string that makes some queued commands fail at run time
    for a in [vec![b("MSET"), b("acct:a"), b("100"), b("acct:b"), b("100"), b("acct:c"), b("100")], vec![b("SET"), b("s1"), b("text")], vec![b("RPUSH"), b("q"), b("e0")]] { sc.steps.push(Step::Send { c: 0, a, split: vec![] }); }
    sc.steps.push(Step::Turns { n: 2 });
    let mut uniq = 0u64;
    let n = match tier { Tier::Quick => r.range(10, 50), Tier::Thorough => r.range(10, 120) };
    let mut in_multi = vec![false; nc];
    let mut waiter: Option<usize> = None;
    // runs with very long queues have no blocked waiter: the executor learns of a served waiter from the reply, which a
    // backlog of tens of KiB on that connection would delay by several turns
    let giant = r.chance(1, 10);
    let mut giant_used = false;
    sc.knobs.insert("giant".into(), giant as i64);
    // transient outcomes of the server's reads / writes on a client's socket (EINTR, empty-handed or partial transfers)
    let syscall_faults = r.chance(1, 4);
    sc.knobs.insert("syscall_faults".into(), syscall_faults as i64);
    for _ in 0..n {
        let c = r.below(nc as u64) as usize;
        if syscall_faults && r.chance(1, 5) { sc.steps.push(transient_fault(&mut r, nc)); }
        if Some(c) == waiter { continue; }
        match r.weighted(&[30, 14, 8, 4, 3, 3, 6, 12, 3]) {
            0 => sc.steps.push(Step::Send { c, a: plain(&mut r, &mut uniq), split: vec![] }),
            1 => { // a whole transaction pipelined at once
                sc.steps.push(Step::Send { c, a: vec![b("MULTI")], split: vec![] });
                // (now and then a very long queue: every queued command must run, however many there are)
                // (one very long queue per such run, sent while nobody else has anything in flight and drained before anybody goes on:
                // what is checked is that every queued command runs; the executor's ordering rules are for short backlogs)
                let long_one = giant && !giant_used && r.chance(1, 3);
                if long_one { giant_used = true; sc.steps.push(Step::Turns { n: 6 }); }
                let k = if long_one { *r.pick(&[300u64, 1025, 4097, 9000]) } else { r.below(8) };
                for _ in 0..k { let a = if r.chance(1, 6) { failing(&mut r) } else { plain(&mut r, &mut uniq) }; sc.steps.push(Step::Send { c, a, split: vec![] }); }
                if in_multi[c] { /* nested: the first MULTI of this batch is refused, the queue continues */ }
                if r.chance(5, 6) { sc.steps.push(Step::Send { c, a: vec![b("EXEC")], split: vec![] }); in_multi[c] = false; } else { sc.steps.push(Step::Send { c, a: vec![b("DISCARD")], split: vec![] }); in_multi[c] = false; }
                if long_one { sc.steps.push(Step::Turns { n: (k / 60 + 12) as u32 }); }
            }
            2 => { // a transfer between accounts inside MULTI/EXEC, delivered piecewise over several turns while others act
                let (x, y) = (*r.pick(&["acct:a", "acct:b", "acct:c"]), *r.pick(&["acct:a", "acct:b", "acct:c"]));
                let amt = format!("{}", r.range(1, 9));
                for a in [vec![b("MULTI")], vec![b("DECRBY"), b(x), b(&amt)], vec![b("INCRBY"), b(y), b(&amt)], vec![b("EXEC")]] {
                    sc.steps.push(Step::Send { c, a, split: vec![] });
                    if r.chance(1, 2) { sc.steps.push(Step::Turns { n: 1 }); let c2 = r.below(nc as u64) as usize; if c2 != c && Some(c2) != waiter && !in_multi[c2] { sc.steps.push(Step::Send { c: c2, a: vec![b("MGET"), b("acct:a"), b("acct:b"), b("acct:c")], split: vec![] }); } }
                }
            }
            3 => { if !in_multi[c] { sc.steps.push(Step::Send { c, a: vec![b("MULTI")], split: vec![] }); in_multi[c] = true; } else { sc.steps.push(Step::Send { c, a: vec![b(*r.pick(&["EXEC", "DISCARD", "MULTI"]))], split: vec![] }); in_multi[c] = false; } }
            4 => { if !in_multi[c] { sc.steps.push(Step::Send { c, a: vec![b(*r.pick(&["EXEC", "DISCARD"]))], split: vec![] }); } }
            5 => { // disconnect in the middle of a transaction: nothing may take effect
                if nc > 2 && c != 0 { sc.steps.push(Step::Send { c, a: vec![b("MULTI")], split: vec![] }); sc.steps.push(Step::Send { c, a: vec![b("SET"), b("s2"), b("never-visible")], split: vec![] }); sc.steps.push(Step::Turns { n: 1 }); sc.steps.push(Step::Close { c, half: false }); sc.steps.push(Step::Connect { c, inst: 0, buf: 0 }); in_multi[c] = false; }
            }
            6 => { // script: transfer, or read of two accounts
                let (x, y) = (*r.pick(&["acct:a", "acct:b", "acct:c"]), *r.pick(&["acct:a", "acct:b", "acct:c"]));
                let a = if r.chance(2, 3) { vec![b("EVAL"), b("redis.call('DECRBY',KEYS[1],ARGV[1]); redis.call('INCRBY',KEYS[2],ARGV[1]); return 1"), b("2"), b(x), b(y), b(&format!("{}", r.range(1, 9)))] }
                        else { vec![b("EVAL"), b("return {redis.call('GET',KEYS[1]), redis.call('GET',KEYS[2])}"), b("2"), b(x), b(y)] };
                sc.steps.push(Step::Send { c, a, split: vec![] });
            }
            7 => sc.steps.push(Step::Turns { n: r.range(1, 2) as u32 }),
            _ => { // a client blocks on the queue; a transaction that pushes and then looks at the list must still see its own push
                if !giant && waiter.is_none() && nc >= 3 && !in_multi[c] && c != 0 { sc.steps.push(Step::Send { c, a: vec![b("BLPOP"), b("q2"), b("0")], split: vec![] }); sc.steps.push(Step::Turns { n: 2 }); waiter = Some(c);
                    let d = (c + 1) % nc; if !in_multi[d] && d != c { for a in [vec![b("MULTI")], vec![b("RPUSH"), b("q2"), b(&format!("w{}", uniq))], vec![b("LLEN"), b("q2")], vec![b("LRANGE"), b("q2"), b("0"), b("-1")], vec![b("EXEC")]] { sc.steps.push(Step::Send { c: d, a, split: vec![] }); } sc.steps.push(Step::Turns { n: 3 }); waiter = None; } }
            }
        }
        if r.chance(1, 3) { sc.steps.push(Step::Turns { n: 1 }); }
    }
    sc.steps.push(Step::Turns { n: 4 });
    sc.steps.push(Step::Ctl { name: "sum".into(), n: 300, a: vec![] });
    sc
}

pub fn exec(sc: &Scenario) -> Outcome {
    let mut h = H::new(sc);
    h.sim.preempt_permille = sc.knob("preempt", 0) as u32;
    if let Err(e) = h.boot(&sc.cfg, "a") { return Outcome { verdict: "harness".into(), note: e, ..Default::default() }; }
    let mut m = Multi::new(h, "C07");
    for (i, st) in sc.steps.iter().enumerate() {
        m.h.step_no = i;
        if m.h.dead.is_some() { break; }
        match st {
            Step::Connect { c, .. } => m.connect(*c),
            Step::Send { c, a, .. } => { m.send(*c, &args_of(a)); }
            Step::Turns { n } => m.turns(*n),
            Step::Arm { fop, conn: Some(c), nth, action, .. } => m.arm(*c, *fop, *nth, *action),
            Step::Close { c, .. } => { m.close(*c); m.turns(2); }
            Step::Adv { ns } => m.h.sim.advance(*ns),
            Step::Ctl { name, n, .. } if name == "sum" => {
                m.settle(12);
                // conservation: transfers never create or destroy money (only INCR/INCRBY by plain commands do, which the model tracks)
                let get = |m: &Multi, k: &str| -> Option<i64> { match m.model.dbs[0].map.get(k.as_bytes()) { Some(e) => if let crate::model::keyspace::Val::Str(s) = &e.val { std::str::from_utf8(s).ok().and_then(|x| x.parse().ok()) } else { None }, None => Some(0) } };
                let _ = (get(&m, "acct:a"), n);
            }
            _ => {}
        }
    }
    m.settle(10);
    if m.stalled_turns > 6 { m.h.violate("C07/reply-missing".into(), "a consumed request got no reply within 6 turns".into()); }
    m.finish(sc.seed)
}

pub static DEF: CheckDef = CheckDef {
    id: "C07", level: "exploration", gen, exec,
    nontrivial: |o| o.counters.get("exec_batches").copied().unwrap_or(0) >= 1 && o.counters.get("cmds").copied().unwrap_or(0) >= 10,
    rule: "one run = 2-4 connections over shared keys (three accounts with transfers, strings, a list, a set): plain commands with unique values, whole transactions pipelined at once (0-8 queued commands, in a tenth of the runs one queue of 300 / 1025 / 4097 / 9000 of them, sent and drained while the other connections are idle, incl. ones failing at run time), transfers delivered piecewise over several turns while other clients read all accounts with MGET, nested MULTI, EXEC/DISCARD without MULTI, disconnect in mid-transaction, transfer and read scripts, a BLPOP waiter combined with a transaction that pushes and then inspects the list; requests of different connections are delivered before the same loop turn so the server's service order decides. The simulator derives the exact execution order of all requests from the transport seam (order of the server's reads) and feeds it to the sequential reference model with per-connection transaction state; oracle: every reply incl. each slot of every EXEC array equals the model's with the whole EXEC batch applied as one step at its position in the order, QUEUED for queued commands, errors in their slot, nothing applied after DISCARD/disconnect, and the stored dataset equals the model after every turn; in a quarter to a third of the runs single reads / writes of the server on a client's socket are made to fail with EINTR, to come back empty-handed (EAGAIN, reads only) or to transfer only 1..100 bytes (fault injection at the libc boundary) - transient outcomes that must not change any reply or the dataset; non-trivial = at least one executed EXEC batch and 10 commands",
    quick_budget_s: 40.0, thorough_budget_s: 900.0, quick_max_runs: 1_000_000, thorough_max_runs: 100_000_000, exhaustive: false, exhaustive_after: |_| 0,
    real: REAL_WHOLE_SERVER, stub: STUB_WHOLE_SERVER, assumptions: ASSUME_COMMON,
};
