//! C12 — scripts are atomic and redis.call means the same as the direct command.
//! Differential twins: two simulated servers are kept in the same state; one receives a command
//! wrapped in a script, the other the command itself; replies (after the RESP→Lua→RESP
//! conversion) and the canonical datasets must agree.
use super::c09::{same_value, snapshot, type_of, Snapshot};
use super::multi::upper;
use super::*;
use crate::harness::*;
use crate::resp::R;
use crate::scenario::*;
use crate::sim::*;
use std::collections::BTreeMap;

const CALL: &str = "return redis.call(unpack(ARGV))";
const PCALL: &str = "return redis.pcall(unpack(ARGV))";
const KEYFORM: &str = "return redis.call(ARGV[1], KEYS[1], unpack(ARGV, 2))";

/// literal scripts and the reply the standard Lua→RESP conversion gives them
const SHAPES: &[(&str, &str)] = &[
    ("return nil", "nil"), ("return true", ":1"), ("return false", "nil"), ("return 42", ":42"), ("return -7", ":-7"), ("return 3.7", ":3"), ("return -0.5", ":0"),
    ("return 'hello'", "\"hello\""), ("return ''", "\"\""), ("return {1,2,3}", "[:1, :2, :3]"), ("return {}", "[]"), ("return {1,{2,'x',{3}},'y'}", "[:1, [:2, \"x\", [:3]], \"y\"]"),
    ("return {1,nil,3}", "[:1]"), ("return {ok='fine'}", "+fine"), ("return {err='MYERR bad'}", "-MYERR bad"), ("return {1.9,'1.9',true,false}", "[:1, \"1.9\", :1, nil]"),
    ("return redis.status_reply('YES')", "+YES"), ("return redis.error_reply('NOPE no')", "-NOPE no"), ("return 9007199254740992", ":9007199254740992"),
    ("return #ARGV", ":0"), ("return #KEYS", ":0"), ("return tostring(1)..'x'", "\"1x\""), ("local t = {} for i=1,300 do t[i]=i end return #t", ":300"),
    ("return string.rep('ab', 3)", "\"ababab\""), ("return {KEYS[1], ARGV[1]}", "[]"),
];

/// scripts that try to leave the sandbox: every one must end in an error reply and leave the server alive
const ESCAPES: &[&str] = &[
    "return os.execute('true')", "return io.open('/etc/passwd')", "return require('os')", "return loadfile('/etc/passwd')", "return dofile('/etc/passwd')", "return debug.getinfo(1)",
    "return package.loaded", "return os.getenv('HOME')", "return io.write('x')", "return os.exit(1)", "return load('return 1')()",
    "return redis.call('BLPOP','nolist','0')", "return redis.call('BRPOP','nolist','1')", "return redis.call('SUBSCRIBE','ch')", "return redis.call('MULTI')", "return redis.call('EXEC')",
    "return redis.call('WATCH','k')", "return redis.call('AUTH','x')", "return redis.call('SHUTDOWN')", "return redis.call('SAVE')", "return redis.call('BGSAVE')",
    "return redis.call('EVAL','return 1','0')", "return redis.call('SCRIPT','FLUSH')", "return redis.call('SELECT','3')", "return redis.call('QUIT')", "return redis.call('MONITOR')",
    "return redis.call('CONFIG','SET','dir','/tmp')", "return redis.call('REPLICAOF','127.0.0.1','1')", "return redis.call('SLEEP','1')",
];

pub fn gen(seed: u64, idx: u64, tier: Tier) -> Scenario {
    let mut r = Rng::new(seed);
    let mut sc = Scenario::new("C12", seed);
    sc.steps.push(Step::Connect { c: 0, inst: 0, buf: 0 });
    // the command stream of one of the model-based checks (same argument spaces), without its clock steps
    let fam = idx % 5;
    let inner = match fam { 0 => super::c01::gen(seed ^ 0x12, 0, tier), 1 => super::c03::gen(seed ^ 0x12, 0, tier), 2 => super::c04::gen(seed ^ 0x12, 0, tier), 3 => super::c15::gen(seed ^ 0x12, 0, tier), _ => super::c02::gen(seed ^ 0x12, 0, tier) };
    sc.knobs.insert("family".into(), fam as i64);
    if r.chance(1, 3) { sc.steps.push(Step::Cmd { c: 0, a: vec![b("SELECT"), b(*r.pick(&["1", "7", "15"]))], split: vec![] }); }
    let limit = match tier { Tier::Quick => 60, Tier::Thorough => 200 };
    let mut n = 0;
    for st in inner.steps.iter() {
        if n >= limit { break; }
        if let Step::Cmd { a, .. } = st {
            let verb = upper(&a[0].0);
            if matches!(verb.as_str(), "SPOP" | "SRANDMEMBER" | "RANDOMKEY" | "SELECT" | "SAVE" | "BGSAVE" | "FLUSHALL") { continue; }
            if a.iter().any(|x| x.0.len() > 4096) { continue; }
            n += 1;
            // how the command is wrapped: call, pcall, with its key in KEYS, through EVALSHA
            sc.steps.push(Step::Ctl { name: "diff".into(), n: r.below(4) as i64, a: a.clone() });
            // forms the command streams above do not contain: a time that is not positive, the seconds-resolution reading of a
            // time-to-live, set members picked by count (compared where the outcome is forced: a one-member set, a missing key)
            if r.chance(1, 10) {
                let extra: Vec<Vec<B>> = match r.below(7) {
                    0 => vec![vec![b("SET"), b("x:k"), b("v"), b("EX"), b("100")], vec![b("EXPIRE"), b("x:k"), b(*r.pick(&["-1", "0", "-100"]))]],
                    1 => vec![vec![b("SET"), b("x:t"), b("v"), b("PX"), b(*r.pick(&["10500", "99999", "2001"]))], vec![b("TTL"), b("x:t")]],
                    2 => vec![vec![b("DEL"), b("x:s")], vec![b("SADD"), b("x:s"), b("only")], vec![b(*r.pick(&["SPOP", "SRANDMEMBER"])), b("x:s"), b("1")]],
                    3 => vec![vec![b("DEL"), b("x:s")], vec![b("SADD"), b("x:s"), b("only")], vec![b(*r.pick(&["SPOP", "SRANDMEMBER"])), b("x:s")]],
                    4 => vec![vec![b(*r.pick(&["SPOP", "SRANDMEMBER"])), b("x:missing")], vec![b(*r.pick(&["SPOP", "SRANDMEMBER"])), b("x:missing"), b("2")]],
                    5 => vec![vec![b("SET"), b("x:o"), b("v"), b("EX"), b("100")], vec![b("SET"), b("x:o"), b("w"), b("KEEPTTL")]],
                    _ => vec![vec![b("SET"), b("x:o"), b("v")], vec![b("SET"), b("x:o"), b("w"), b("GET")]],
                };
                for a in extra { sc.steps.push(Step::Ctl { name: "diff".into(), n: r.below(4) as i64, a }); }
            }
            if r.chance(1, 12) { sc.steps.push(Step::Ctl { name: "shape".into(), n: r.below(SHAPES.len() as u64) as i64, a: vec![] }); }
            if r.chance(1, 14) { sc.steps.push(Step::Ctl { name: "escape".into(), n: r.below(ESCAPES.len() as u64) as i64, a: vec![] }); }
            if r.chance(1, 14) { sc.steps.push(Step::Ctl { name: "argv".into(), n: (r.next() >> 1) as i64, a: vec![] }); }
            if r.chance(1, 14) { sc.steps.push(Step::Ctl { name: "partial".into(), n: r.below(2) as i64, a: a.clone() }); }
        }
    }
    if r.chance(1, 3) { sc.steps.push(Step::Ctl { name: "atomic".into(), n: r.range(2, 6), a: vec![] }); }
    sc
}

/// RESP → Lua → RESP
fn conv(r: &R) -> R { match r { R::Nil | R::NilArr | R::Null3 => R::Nil, R::Arr(v) => R::Arr(v.iter().map(conv).collect()), R::Bool(b) => if *b { R::Int(1) } else { R::Nil }, other => other.clone() } }

fn unordered(verb: &str) -> bool { matches!(verb, "SMEMBERS" | "SUNION" | "SINTER" | "SDIFF" | "KEYS" | "HKEYS" | "HVALS" | "HGETALL" | "SCAN" | "SSCAN" | "HSCAN" | "ZSCAN") }

fn canon(verb: &str, r: &R) -> String {
    match r {
        R::Arr(v) if verb == "HGETALL" && v.len() % 2 == 0 => { let mut p: Vec<String> = v.chunks(2).map(|c| format!("{:?}={:?}", c[0], c[1])).collect(); p.sort(); format!("{:?}", p) }
        R::Arr(v) if unordered(verb) => { let mut p: Vec<String> = v.iter().map(|x| canon(verb, x)).collect(); p.sort(); format!("{:?}", p) }
        R::Arr(v) if verb == "XRANGE" || verb == "XREVRANGE" || verb == "XREAD" => format!("[{}]", v.iter().map(|x| canon_entry(x)).collect::<Vec<_>>().join(",")),
        other => format!("{:?}", other),
    }
}
/// stream entries: field order inside an entry is free
fn canon_entry(r: &R) -> String {
    match r {
        R::Arr(p) if p.len() == 2 && matches!(p[0], R::Bulk(_)) => match &p[1] { R::Arr(f) if f.len() % 2 == 0 && f.iter().all(|x| matches!(x, R::Bulk(_))) => { let mut q: Vec<String> = f.chunks(2).map(|c| format!("{:?}={:?}", c[0], c[1])).collect(); q.sort(); format!("({:?} {:?})", p[0], q) } R::Arr(es) => format!("({:?} [{}])", p[0], es.iter().map(canon_entry).collect::<Vec<_>>().join(",")), other => format!("({:?} {:?})", p[0], other) },
        other => format!("{:?}", other),
    }
}

/// What kind of difference is it? (systematic conversion differences get their own names)
fn diff_kind(script: &R, direct: &R, want: &R) -> String {
    match (script, direct) {
        (R::Bulk(a), R::Simple(b)) if a == b => "status-as-bulk".into(),
        (R::Arr(a), R::Arr(_)) => {
            if let R::Arr(w) = want {
                if let Some(p) = w.iter().position(|e| matches!(e, R::Nil)) { if a.len() == p && a[..] == w[..p] { return "array-cut-at-nil".into(); } }
                // nested status elements
                if a.len() == w.len() && a.iter().zip(w.iter()).all(|(x, y)| x == y || matches!((x, y), (R::Bulk(p), R::Simple(q)) if p == q)) { return "status-as-bulk".into(); }
            }
            "different-array".into()
        }
        (R::Nil, R::Arr(v)) if v.is_empty() => "empty-array-as-nil".into(),
        (R::Nil, R::Arr(v)) if matches!(v.first(), Some(R::Nil)) => "array-cut-at-nil".into(),
        (s, d) if s.is_err() && !d.is_err() => format!("script-refuses,direct={}", d.kind()),
        (s, d) if !s.is_err() && d.is_err() => format!("direct-refuses,script={}", s.kind()),
        (s, d) => format!("script={},direct={}", s.kind(), d.kind()),
    }
}

/// Lua 5.1 numbers are doubles: integers beyond 2^53 come back rounded (or saturated)
fn big_int_equiv(script: &R, want: &R) -> bool {
    match (script, want) {
        (R::Int(a), R::Int(b)) => b.unsigned_abs() > (1u64 << 53) && (*a as f64 == *b as f64 || *a == i64::MAX || *a == i64::MIN),
        (R::Arr(x), R::Arr(y)) => x.len() == y.len() && x.iter().zip(y.iter()).all(|(p, q)| p == q || big_int_equiv(p, q)) && x.iter().zip(y.iter()).any(|(p, q)| p != q),
        _ => false,
    }
}

fn near_int(a: &R, b: &R, tol: i64) -> bool { matches!((a, b), (R::Int(x), R::Int(y)) if (x - y).abs() <= tol) }

struct Twins { h: H, a: usize, t: usize, ca: usize, ct: usize, sha: BTreeMap<(usize, String), Vec<u8>> }

impl Twins {
    fn on(&mut self, inst: usize, cl: usize, args: &[Vec<u8>]) -> (Option<R>, u64) {
        self.h.inst = inst;
        self.h.dead = None;
        let r = self.h.cmd(cl, args, &[]);
        let t = r.exec_mono.unwrap_or_else(|| self.h.sim.now());
        (r.reply, t)
    }
    fn both(&mut self, args: &[Vec<u8>]) { let (a, t, ca, ct) = (self.a, self.t, self.ca, self.ct); self.on(a, ca, args); self.on(t, ct, args); }
    fn script_on_a(&mut self, script: &str, numkeys: usize, rest: &[Vec<u8>], via_sha: bool) -> (Option<R>, u64) {
        let (a, ca) = (self.a, self.ca);
        if via_sha {
            let key = (a, script.to_string());
            if !self.sha.contains_key(&key) { if let (Some(R::Bulk(s)), _) = self.on(a, ca, &[b"SCRIPT".to_vec(), b"LOAD".to_vec(), script.as_bytes().to_vec()]) { self.sha.insert(key.clone(), s); } }
            if let Some(s) = self.sha.get(&key).cloned() { let mut c = vec![b"EVALSHA".to_vec(), s, format!("{}", numkeys).into_bytes()]; c.extend_from_slice(rest); return self.on(a, ca, &c); }
        }
        let mut c = vec![b"EVAL".to_vec(), script.as_bytes().to_vec(), format!("{}", numkeys).into_bytes()];
        c.extend_from_slice(rest);
        self.on(a, ca, &c)
    }
    /// keys about to expire are removed on both sides: the twins execute a few virtual milliseconds apart
    fn stabilise(&mut self) {
        let sa = snapshot(&self.h, self.a);
        for (db, d) in sa.iter().enumerate() {
            for (k, e) in d.iter() { if e.ttl_ns.map_or(false, |t| t < 1_500_000_000) { self.del_both(db, k); self.h.count("soon_expiring_key_removed", 1); } }
        }
    }
    fn del_both(&mut self, db: usize, key: &[u8]) {
        // through a separate connection pair so that the selected database of the main pair stays untouched
        let (a, t) = (self.a, self.t);
        for inst in [a, t] {
            self.h.inst = inst;
            let c = self.h.connect(700 + self.h.sim.clients.len(), inst, 0);
            let _ = self.h.cmd(c, &[b"SELECT".to_vec(), format!("{}", db).into_bytes()], &[]);
            let _ = self.h.cmd(c, &[b"DEL".to_vec(), key.to_vec()], &[]);
            self.h.sim.close(c, CloseHow::Close);
        }
    }
    /// Compare the two datasets; differing keys are reported once and removed on both sides.
    fn compare_state(&mut self, verb: &str, how: &str, cmd: &[Vec<u8>], dt: u64) {
        let (sa, st): (Snapshot, Snapshot) = (snapshot(&self.h, self.a), snapshot(&self.h, self.t));
        let tol = dt as i128 + 5_000_000;
        let mut repairs: Vec<(usize, Vec<u8>)> = Vec::new();
        let mut first: Option<(String, String)> = None;
        for db in 0..16 {
            let (x, y) = (&sa[db], &st[db]);
            for (k, e) in x.iter() {
                if e.ttl_ns.map_or(false, |t| t <= 0) { continue; }
                let d = match y.get(k) {
                    None => Some(("key-only-after-script".to_string(), format!("db{} key {} ({}) exists only on the server that ran the script", db, esc(k), type_of(&e.value)))),
                    Some(f) if f.ttl_ns.map_or(false, |t| t <= 0) => None,
                    Some(f) => {
                        if !same_value(&e.value, &f.value) { Some((format!("value-differs/{}", type_of(&e.value)), format!("db{} key {}: after the script {} ; after the direct command {}", db, esc(k), trunc(&format!("{:?}", e.value)), trunc(&format!("{:?}", f.value))))) }
                        else { match (e.ttl_ns, f.ttl_ns) { (None, None) => None, (Some(p), Some(q)) if (p - q).abs() <= tol || (p > 1 << 62 && q > 1 << 62) => None, (p, q) => Some(("deadline-differs".to_string(), format!("db{} key {}: deadline after the script {:?} ns, after the direct command {:?} ns", db, esc(k), p, q))) } }
                    }
                };
                if let Some(d) = d { if first.is_none() { first = Some(d); } repairs.push((db, k.clone())); }
            }
            for (k, f) in y.iter() { if f.ttl_ns.map_or(false, |t| t <= 0) { continue; } if !x.contains_key(k) { if first.is_none() { first = Some(("key-only-after-direct".to_string(), format!("db{} key {} ({}) exists only on the server that got the direct command", db, esc(k), type_of(&f.value)))); } repairs.push((db, k.clone())); } }
        }
        if let Some((kind, detail)) = first {
            self.h.violate(format!("C12/effect/{}/{}", verb, kind), format!("`{}` via {}: {}", show_cmd(cmd), how, detail));
            for (db, k) in repairs { self.del_both(db, &k); }
            self.h.count("twins_repaired", 1);
        }
    }
}

fn trunc(s: &str) -> String { if s.len() > 140 { format!("{}...", &s[..140]) } else { s.to_string() } }

pub fn exec(sc: &Scenario) -> Outcome {
    let mut h = H::new(sc);
    if let Err(e) = h.boot(&sc.cfg, "a") { return Outcome { verdict: "harness".into(), note: e, ..Default::default() }; }
    let t = match h.boot(&sc.cfg, "t") { Ok(i) => i, Err(e) => return Outcome { verdict: "harness".into(), note: e, ..Default::default() } };
    let ca = h.connect(0, 0, 0);
    let ct = h.connect(1, t, 0);
    let mut tw = Twins { h, a: 0, t, ca, ct, sha: BTreeMap::new() };
    for (i, st) in sc.steps.iter().enumerate() {
        tw.h.step_no = i;
        match st {
            Step::Cmd { a, .. } => { tw.both(&args_of(a)); }
            Step::Ctl { name, n, a } if name == "diff" && !a.is_empty() => {
                let cmd = args_of(a);
                let mut verb = upper(&cmd[0]);
                // (SET's newer options name their own violation classes: two recorded findings are about them only)
                if verb == "SET" { for o in ["KEEPTTL", "GET"] { if cmd.iter().skip(3).any(|x| upper(x) == o) { verb = format!("SET+{}", o); break; } } }
                tw.stabilise();
                let (how, script, numkeys, rest): (&str, &str, usize, Vec<Vec<u8>>) = match *n {
                    1 => ("pcall", PCALL, 0, cmd.clone()),
                    2 if cmd.len() >= 2 => ("call-with-KEYS", KEYFORM, 1, { let mut v = vec![cmd[1].clone(), cmd[0].clone()]; v.extend_from_slice(&cmd[2..]); v }),
                    3 => ("evalsha", CALL, 0, cmd.clone()),
                    _ => ("call", CALL, 0, cmd.clone()),
                };
                let (ra, ta) = tw.script_on_a(script, numkeys, &rest, how == "evalsha");
                let (tt, ctt) = (tw.t, tw.ct);
                let (rt, tt_time) = tw.on(tt, ctt, &cmd);
                tw.h.count("differential_steps", 1);
                tw.h.count(&format!("via_{}", how), 1);
                tw.h.note(format!("{} [{}] script -> {} ; direct -> {}", show_cmd(&cmd), how, ra.as_ref().map(|r| r.short()).unwrap_or("(none)".into()), rt.as_ref().map(|r| r.short()).unwrap_or("(none)".into())));
                match (&ra, &rt) {
                    (Some(x), Some(y)) => {
                        let want = conv(y);
                        let ok = if y.is_err() { x.is_err() } else if big_int_equiv(x, &want) { true } else if matches!(y, R::NilArr) && matches!(x, R::Arr(v) if v.is_empty()) { true } else if matches!(verb.as_str(), "TTL" | "PTTL") { near_int(x, &want, if verb == "TTL" { 1 } else { 200 }) || *x == want } else { canon(&verb, x) == canon(&verb, &want) };
                        if !ok { let dk = diff_kind(x, y, &want); tw.h.violate(format!("C12/reply/{}/{}", verb, dk), format!("`{}` via {} -> {} ; sent directly -> {} (expected after conversion: {})", show_cmd(&cmd), how, x.short(), y.short(), want.short())); }
                    }
                    (None, Some(y)) => tw.h.violate(format!("C12/no-reply-to-script/{}/{}", verb, how), format!("`{}` via {}: no reply; direct -> {}", show_cmd(&cmd), how, y.short())),
                    _ => {}
                }
                let dt = if ta > tt_time { ta - tt_time } else { tt_time - ta };
                tw.compare_state(&verb, how, &cmd, dt);
            }
            Step::Ctl { name, n, .. } if name == "shape" => {
                let (script, want) = SHAPES[*n as usize % SHAPES.len()];
                let via_sha = *n % 2 == 1;
                let (ra, _) = tw.script_on_a(script, 0, &[], via_sha);
                tw.h.count("shape_scripts", 1);
                let got = ra.as_ref().map(|r| r.short()).unwrap_or("(none)".into());
                let ok = if want.starts_with('-') { ra.as_ref().map_or(false, |r| r.is_err()) && got.contains(&want[1..]) } else { got == want };
                if !ok { tw.h.violate(format!("C12/conversion/{}", script.chars().filter(|c| c.is_ascii_alphanumeric() || *c == '.').take(24).collect::<String>()), format!("`{}` -> {} ; the Lua-to-RESP conversion gives {}", script, got, want)); }
            }
            Step::Ctl { name, n, .. } if name == "escape" => {
                let script = ESCAPES[*n as usize % ESCAPES.len()];
                let before = snapshot(&tw.h, tw.a);
                let (ra, _) = tw.script_on_a(script, 0, &[], false);
                tw.h.count("escape_scripts", 1);
                let tag: String = script.chars().filter(|c| c.is_ascii_alphanumeric()).skip(6).take(22).collect();
                match &ra {
                    Some(r) if r.is_err() => {}
                    Some(r) => tw.h.violate(format!("C12/sandbox/not-refused/{}", tag), format!("`{}` -> {} (expected an error reply)", script, r.short())),
                    None => { tw.h.violate(format!("C12/sandbox/no-reply/{}", tag), format!("`{}` got no reply (blocked, crashed or exited: {:?})", script, tw.h.dead)); break; }
                }
                let after = snapshot(&tw.h, tw.a);
                let changed = (0..16).any(|db| before[db].len() != after[db].len());
                if changed { tw.h.violate(format!("C12/sandbox/changed-dataset/{}", tag), format!("`{}` changed the dataset", script)); }
                // the server still answers
                let (a, ca) = (tw.a, tw.ca);
                if tw.on(a, ca, &[b"PING".to_vec()]).0.is_none() { tw.h.violate(format!("C12/sandbox/server-unusable/{}", tag), format!("no PONG after `{}`", script)); break; }
            }
            Step::Ctl { name, n, .. } if name == "argv" => {
                // KEYS and ARGV arrive byte for byte
                let mut r = Rng::new(*n as u64);
                let pool: Vec<Vec<u8>> = vec![b"plain".to_vec(), vec![], vec![0], vec![0xff, 0xfe, 0x00, 0x80], b"a\r\nb".to_vec(), b"with space".to_vec(), "\u{fc}mlaut".as_bytes().to_vec(), vec![0xc3, 0x28], b"123".to_vec(), b"-0".to_vec(), vec![b'x'; 300]];
                let nk = r.range(0, 3) as usize; let na = r.range(0, 3) as usize;
                let keys: Vec<Vec<u8>> = (0..nk).map(|_| r.pick(&pool).clone()).collect();
                let argv: Vec<Vec<u8>> = (0..na).map(|_| r.pick(&pool).clone()).collect();
                let mut rest = keys.clone(); rest.extend(argv.clone());
                let (ra, _) = tw.script_on_a("local t = {#KEYS, #ARGV} for i=1,#KEYS do t[#t+1]=KEYS[i] end for i=1,#ARGV do t[#t+1]=ARGV[i] end return t", nk, &rest, r.chance(1, 2));
                tw.h.count("argv_scripts", 1);
                let mut want = vec![R::Int(nk as i64), R::Int(na as i64)]; want.extend(keys.iter().map(|k| R::Bulk(k.clone()))); want.extend(argv.iter().map(|k| R::Bulk(k.clone())));
                let want = R::Arr(want);
                if ra.as_ref() != Some(&want) {
                    let bin = rest.iter().any(|x| std::str::from_utf8(x).is_err());
                    tw.h.violate(format!("C12/keys-argv/{}", if bin { "non-utf8" } else { "utf8" }), format!("script echoing KEYS/ARGV -> {} ; sent {}", ra.as_ref().map(|r| r.short()).unwrap_or("(none)".into()), want.short()));
                }
            }
            Step::Ctl { name, n, a } if name == "partial" && !a.is_empty() => {
                // effects made before a failing redis.call persist; pcall lets the script go on
                let cmd = args_of(a);
                let marker = format!("marker:{}", i).into_bytes();
                let call = *n == 0;
                let script = if call { "redis.call('SET', KEYS[1], 'before'); local r = redis.call(unpack(ARGV)); redis.call('SET', KEYS[1], 'after'); return r" } else { "redis.call('SET', KEYS[1], 'before'); local r = redis.pcall(unpack(ARGV)); redis.call('SET', KEYS[1], 'after'); return r" };
                tw.stabilise();
                let mut rest = vec![marker.clone()]; rest.extend(cmd.clone());
                let (ra, _) = tw.script_on_a(script, 1, &rest, false);
                let (tt, ctt) = (tw.t, tw.ct);
                let (rt, _) = tw.on(tt, ctt, &cmd);
                let (a_i, ca) = (tw.a, tw.ca);
                let (mk, _) = tw.on(a_i, ca, &[b"GET".to_vec(), marker.clone()]);
                tw.h.count("partial_scripts", 1);
                if let (Some(x), Some(_y)) = (&ra, &rt) {
                    // whether the inner command fails is the differential steps' subject; here: given what the
                    // script itself reports, did the effects before / after the inner call happen?
                    let want_marker = if x.is_err() && call { "before" } else { "after" };
                    if call || !x.is_err() || true {
                        if mk != Some(R::Bulk(want_marker.as_bytes().to_vec())) { tw.h.violate(format!("C12/partial-effects/{}/{}", if call { "call" } else { "pcall" }, if x.is_err() { "inner-error" } else { "inner-ok" }), format!("script around `{}` ({}): marker is {:?}, expected {:?}; script reply {}", show_cmd(&cmd), if call { "call" } else { "pcall" }, mk.as_ref().map(|r| r.short()), want_marker, x.short())); }
                        else { tw.h.count(if x.is_err() { "partial_inner_error_checked" } else { "partial_inner_ok_checked" }, 1); }
                    }
                }
                let (a_i, ca) = (tw.a, tw.ca);
                tw.on(a_i, ca, &[b"DEL".to_vec(), marker]);
                tw.compare_state(&upper(&cmd[0]), if call { "partial-call" } else { "partial-pcall" }, &cmd, 50_000_000);
            }
            Step::Ctl { name, n, .. } if name == "atomic" => {
                // another connection never observes a script half done
                let a_i = tw.a;
                tw.h.inst = a_i;
                let obs = tw.h.connect(50, a_i, 0);
                let (ca, _) = (tw.ca, 0);
                let _ = tw.h.cmd(ca, &[b"SELECT".to_vec(), b"0".to_vec()], &[]);
                let _ = tw.h.cmd(ca, &[b"MSET".to_vec(), b"acct:a".to_vec(), b"100".to_vec(), b"acct:b".to_vec(), b"100".to_vec()], &[]);
                let script = b"redis.call('DECRBY',KEYS[1],ARGV[1]); redis.call('INCRBY',KEYS[2],ARGV[1]); return 1".to_vec();
                for k in 0..*n {
                    // transfers and observations are written before the same loop turns
                    tw.h.send_bytes(ca, &crate::resp::encode_cmd(&[b"EVAL".to_vec(), script.clone(), b"2".to_vec(), b"acct:a".to_vec(), b"acct:b".to_vec(), format!("{}", k + 1).into_bytes()]), &[]);
                    tw.h.send_bytes(obs, &crate::resp::encode_cmd(&[b"MGET".to_vec(), b"acct:a".to_vec(), b"acct:b".to_vec()]), &[]);
                    tw.h.send_bytes(ca, &crate::resp::encode_cmd(&[b"EVAL".to_vec(), script.clone(), b"2".to_vec(), b"acct:b".to_vec(), b"acct:a".to_vec(), b"3".to_vec()]), &[]);
                    tw.h.send_bytes(obs, &crate::resp::encode_cmd(&[b"MGET".to_vec(), b"acct:a".to_vec(), b"acct:b".to_vec()]), &[]);
                    tw.h.turn();
                }
                for _ in 0..4 { tw.h.turn(); }
                let reps: Vec<R> = tw.h.cs[obs].replies.drain(..).collect();
                tw.h.cs[ca].replies.clear();
                for rp in reps {
                    if let R::Arr(v) = &rp { let s: i64 = v.iter().filter_map(|x| if let R::Bulk(b) = x { std::str::from_utf8(b).ok().and_then(|s| s.parse::<i64>().ok()) } else { None }).sum(); tw.h.count("atomic_observations", 1); if s != 200 { tw.h.violate("C12/atomicity/half-done-script-observed".into(), format!("MGET acct:a acct:b -> {} (sum {}, must be 200)", rp.short(), s)); } }
                }
                tw.del_both(0, b"acct:a"); tw.del_both(0, b"acct:b");
                tw.h.sim.close(obs, CloseHow::Close);
            }
            _ => {}
        }
        if tw.h.violations.len() > 24 { break; }
    }
    for inst in [tw.a, tw.t] { tw.h.inst = inst; tw.h.dead = None; }
    tw.h.inst = tw.a;
    tw.h.health_violations("C12");
    tw.h.finish(sc.seed)
}

pub static DEF: CheckDef = CheckDef {
    id: "C12", level: "exploration", gen, exec,
    nontrivial: |o| o.counters.get("differential_steps").copied().unwrap_or(0) >= 10,
    rule: "one run = two simulated servers kept in the same state (twins) and up to 60 (quick) / 200 (thorough) commands taken from the command streams of the model-based checks for strings and keys (C01), lists / sets / hashes (C03), sorted sets (C04) and streams (C15) - the same argument spaces: option combinations, integer and float edges, negative and out-of-range indexes, wrong types, missing keys, wrong arities, binary values - in database 0 or another one; each command goes to one twin wrapped in a script (return redis.call(unpack(ARGV)), the pcall form, a form that passes the key through KEYS, or EVALSHA of the loaded script) and to the other twin directly; oracle: the script's reply equals the direct reply after the RESP-to-Lua-to-RESP conversion (errors stay errors, unordered replies compared as multisets, TTL/PTTL within the virtual time between the two executions) and the canonical datasets of the twins stay equal (values, deadlines); differing keys are reported once and removed on both sides. Interleaved: 25 literal scripts checking every return-value shape of the Lua-to-RESP conversion, 29 scripts trying to reach the file system, the process, blocking / connection / transaction / persistence commands (must be refused, change nothing, leave the server answering), scripts echoing random binary KEYS/ARGV, scripts with a SET before and after a failing call / pcall (effects before the error persist, pcall continues), and transfer scripts pipelined together with another connection's MGETs (no half-done script may be observed). Commands with random outcomes (SPOP, SRANDMEMBER, RANDOMKEY) are excluded; keys with less than 1.5 s to live are removed on both sides before each step because the twins execute a few virtual milliseconds apart. Non-trivial = at least 10 differential steps",
    quick_budget_s: 45.0, thorough_budget_s: 900.0, quick_max_runs: 1_000_000, thorough_max_runs: 100_000_000, exhaustive: false, exhaustive_after: |_| 0,
    real: REAL_WHOLE_SERVER, stub: STUB_WHOLE_SERVER, assumptions: ASSUME_COMMON,
};
