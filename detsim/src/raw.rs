//! Raw Linux x86-64 system calls. The harness interposes the libc wrappers, so the real
//! kernel service is always reached through here.
#![allow(dead_code)]
use core::arch::asm;

#[inline(always)]
pub unsafe fn sc6(n: i64, a1: i64, a2: i64, a3: i64, a4: i64, a5: i64, a6: i64) -> i64 {
    let ret: i64;
    asm!("syscall", inlateout("rax") n => ret, in("rdi") a1, in("rsi") a2, in("rdx") a3,
         in("r10") a4, in("r8") a5, in("r9") a6, lateout("rcx") _, lateout("r11") _, options(nostack));
    ret
}
#[inline(always)]
pub unsafe fn sc3(n: i64, a1: i64, a2: i64, a3: i64) -> i64 { sc6(n, a1, a2, a3, 0, 0, 0) }

/// Convert a raw kernel return value to the libc convention (-1 + errno).
#[inline]
pub unsafe fn ret(r: i64) -> i64 {
    if r < 0 && r > -4096 { *libc::__errno_location() = (-r) as i32; -1 } else { r }
}
#[inline]
pub unsafe fn fail(errno: i32) -> i64 { *libc::__errno_location() = errno; -1 }

pub const SYS_READ: i64 = 0;
pub const SYS_WRITE: i64 = 1;
pub const SYS_CLOSE: i64 = 3;
pub const SYS_SCHED_YIELD: i64 = 24;
pub const SYS_NANOSLEEP: i64 = 35;
pub const SYS_GETPID: i64 = 39;
pub const SYS_SENDTO: i64 = 44;
pub const SYS_RECVFROM: i64 = 45;
pub const SYS_SHUTDOWN: i64 = 48;
pub const SYS_BIND: i64 = 49;
pub const SYS_LISTEN: i64 = 50;
pub const SYS_SOCKETPAIR: i64 = 53;
pub const SYS_SETSOCKOPT: i64 = 54;
pub const SYS_FSYNC: i64 = 74;
pub const SYS_FDATASYNC: i64 = 75;
pub const SYS_FTRUNCATE: i64 = 77;
pub const SYS_RENAME: i64 = 82;
pub const SYS_UNLINK: i64 = 87;
pub const SYS_FUTEX: i64 = 202;
pub const SYS_CLOCK_GETTIME: i64 = 228;
pub const SYS_CLOCK_NANOSLEEP: i64 = 230;
pub const SYS_EXIT_GROUP: i64 = 231;
pub const SYS_OPENAT: i64 = 257;
pub const SYS_ACCEPT4: i64 = 288;
pub const SYS_GETRANDOM: i64 = 318;
pub const SYS_PWRITE64: i64 = 18;

pub fn write_all(fd: i32, mut b: &[u8]) {
    unsafe {
        while !b.is_empty() {
            let r = sc3(SYS_WRITE, fd as i64, b.as_ptr() as i64, b.len() as i64);
            if r == -(libc::EINTR as i64) || r == -(libc::EAGAIN as i64) { continue; }
            if r <= 0 { return; }
            b = &b[r as usize..];
        }
    }
}
pub fn exit_group(code: i32) -> ! {
    unsafe { sc3(SYS_EXIT_GROUP, code as i64, 0, 0); }
    loop {}
}
pub fn futex_wait(addr: *const u32, val: u32, timeout_ns: Option<u64>) -> i64 {
    unsafe {
        let ts;
        let tsp = match timeout_ns {
            Some(ns) => { ts = libc::timespec { tv_sec: (ns / 1_000_000_000) as i64, tv_nsec: (ns % 1_000_000_000) as i64 }; &ts as *const _ as i64 }
            None => 0,
        };
        sc6(SYS_FUTEX, addr as i64, 0 /*FUTEX_WAIT, shared*/, val as i64, tsp, 0, 0)
    }
}
pub fn futex_wake(addr: *const u32, n: i32) -> i64 {
    unsafe { sc6(SYS_FUTEX, addr as i64, 1, n as i64, 0, 0, 0) }
}
pub fn real_mono_ns() -> u64 {
    unsafe {
        let mut ts = libc::timespec { tv_sec: 0, tv_nsec: 0 };
        sc3(SYS_CLOCK_GETTIME, libc::CLOCK_MONOTONIC as i64, &mut ts as *mut _ as i64, 0);
        ts.tv_sec as u64 * 1_000_000_000 + ts.tv_nsec as u64
    }
}
pub fn real_pid() -> i32 { unsafe { sc3(SYS_GETPID, 0, 0, 0) as i32 } }
