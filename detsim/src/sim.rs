//! The simulator proper: boots real `ferrous::Server` instances inside this process, plays all
//! clients over socketpairs, owns both clocks, decides which thread runs, arms faults.
#![allow(dead_code)]

use crate::raw::{self, sc6};
use crate::world::{self, *};
use ferrous::verif::site;
use serde::{Deserialize, Serialize};
use std::collections::VecDeque;
use std::sync::Arc;

#[derive(Clone, Debug, Serialize, Deserialize, PartialEq)]
pub struct ServerCfg {
    #[serde(default)]
    pub requirepass: Option<String>,
    #[serde(default)]
    pub appendonly: bool,
    /// 0 = always, 1 = everysec, 2 = no
    #[serde(default)]
    pub fsync: u8,
    #[serde(default)]
    pub auto_save: bool,
    #[serde(default)]
    pub save_rules: Vec<(u64, u64)>,
}
impl Default for ServerCfg {
    fn default() -> Self { ServerCfg { requirepass: None, appendonly: false, fsync: 2, auto_save: false, save_rules: vec![] } }
}

pub struct Instance {
    pub id: usize,
    pub dir: String,
    pub server_tid: usize,
    pub sweeper_tid: usize,
    pub monitor_tid: Option<usize>,
    pub storage: Arc<ferrous::StorageEngine>,
    pub blocking: Arc<ferrous::network::blocking::BlockingManager>,
    pub pubsub: Arc<ferrous::pubsub::PubSubManager>,
    pub rdb: Option<Arc<ferrous::storage::RdbEngine>>,
    pub turns: u64,
    pub cfg: ServerCfg,
}

pub struct Client {
    pub conn: usize,
    pub inst: usize,
    pub fd: i32,
    pub rx: Vec<u8>,
    pub eof: bool,
    pub reset: bool,
    pub closed: bool,
    pub total_rx: u64,
    pub total_tx: u64,
}

#[derive(Clone, Copy, Debug, PartialEq)]
pub enum TurnOutcome {
    /// one loop turn completed
    Turn { did_work: bool, io: u64, shard: u64 },
    /// the server thread ended (run() returned or panicked)
    ServerExited,
    /// the process of this instance called exit()
    ProcExit(i32),
    Crashed,
    /// every thread of the instance is blocked and no timer can wake one
    Deadlock,
    /// the baton did not come back within the watchdog (infinite loop in server code)
    Hang,
    Dead,
}

#[derive(Clone, Copy, Debug, PartialEq, Serialize, Deserialize)]
pub enum CloseHow { Close, HalfClose }

pub struct Sim {
    pub seed: u64,
    pub sched_rng: [u64; 4],
    pub instances: Vec<Instance>,
    pub clients: Vec<Client>,
    pub base_dir: String,
    /// run background threads to their next blocking point whenever they become runnable
    pub bg_eager: bool,
    /// per-mille probability that a server quantum is pre-empted at a storage-lock acquisition
    pub preempt_permille: u32,
    pub quanta: u64,
    pub turns_total: u64,
    /// clients read concurrently while the server sleeps inside a turn (off = slow readers)
    pub auto_drain: bool,
    /// background threads excluded from eager running (scheduled explicitly by the check)
    pub bg_manual: Vec<usize>,
}

fn on_yield(site_id: u32, a: u64, b: u64) {
    let idx = TID.with(|t| t.get());
    if idx == NONE { return; }
    let w = g();
    if (site_id as usize) < N_SITES { w.site_hits[site_id as usize] += 1; }
    let t = &mut w.threads[idx];
    let bit = 1u32 << site_id;
    if t.mask & bit != 0 {
        yield_to_sim(idx, Reason::Hook { site: site_id, a, b });
    } else if (t.mask >> 16) & bit != 0 {
        t.budget -= 1;
        if t.budget <= 0 { yield_to_sim(idx, Reason::Hook { site: site_id, a, b }); }
    }
}

pub const M_TURN: u32 = 1 << site::TURN;
pub const M_SHARD: u32 = 1 << site::SHARD;
pub const M_SWEEP_COLLECTED: u32 = 1 << site::SWEEP_COLLECTED;
pub const M_SWEEP_PASS_DONE: u32 = 1 << site::SWEEP_PASS_DONE;
pub const M_SWEEP_WAKE: u32 = 1 << site::SWEEP_WAKE;
pub const M_RDB_KEY: u32 = 1 << site::RDB_KEY;
pub const M_RDB_SHARED: u32 = 1 << site::RDB_SHARED_VALUE;

fn install_panic_hook() {
    std::panic::set_hook(Box::new(|info| {
        let idx = TID.with(|t| t.get());
        let msg = format!("{}", info);
        // a panic inside Server::from_config (start-up runs on the simulator thread) unwinds to boot()
        if idx == NONE && world::active() && g().booting { world::log_event(&format!("panic during boot {}", msg)); return; }
        if idx == NONE || !world::active() {
            raw::write_all(2, format!("detsim: simulator thread panicked: {}\n", msg).as_bytes());
            raw::exit_group(2);
        }
        let w = g();
        w.threads[idx].panicked = true;
        w.panics.push((idx, msg.clone()));
        world::log_event(&format!("panic t{} {}", idx, msg));
    }));
}

impl Sim {
    pub fn new(seed: u64, entropy_seed: u64) -> Sim {
        world::init(entropy_seed);
        ferrous::verif::set_yield(on_yield);
        install_panic_hook();
        let base_dir = format!("/dev/shm/ferrous-verif/{}", raw::real_pid());
        let _ = std::fs::remove_dir_all(&base_dir);
        std::fs::create_dir_all(&base_dir).expect("create run dir");
        g().disk_prefix = base_dir.as_bytes().to_vec();
        world::log_event(&format!("sim seed {} entropy {}", seed, entropy_seed));
        Sim { seed, sched_rng: xo_seed(seed ^ 0x5C4ED), instances: Vec::new(), clients: Vec::new(), base_dir,
              bg_eager: true, preempt_permille: 0, quanta: 0, turns_total: 0, auto_drain: true, bg_manual: Vec::new() }
    }

    pub fn cleanup(&self) { let _ = std::fs::remove_dir_all(&self.base_dir); }

    pub fn now(&self) -> u64 { g().mono }
    pub fn real_now(&self) -> u64 { (g().mono as i64 + g().real_off) as u64 }
    pub fn real_off(&self) -> i64 { g().real_off }
    pub fn sched_draw(&mut self, n: u64) -> u64 { if n == 0 { 0 } else { xo_next(&mut self.sched_rng) % n } }

    pub fn new_dir(&mut self, tag: &str) -> String {
        let d = format!("{}/{}", self.base_dir, tag);
        std::fs::create_dir_all(&d).expect("mkdir");
        d
    }

    /// Boot a server instance from `dir` (created if missing). Runs `Server::from_config` on the
    /// simulator thread (threads it spawns are parked until scheduled), then starts the loop on
    /// a managed thread with the main-thread stack size.
    pub fn boot(&mut self, cfg: &ServerCfg, dir: &str) -> Result<usize, String> {
        let id = self.instances.len();
        let w = g();
        w.boot_instance = id;
        while w.accept_q.len() <= id { w.accept_q.push(VecDeque::new()); }
        std::fs::create_dir_all(dir).map_err(|e| e.to_string())?;
        let mut config = ferrous::Config::default();
        config.network.port = 0;
        config.network.password = cfg.requirepass.clone();
        config.rdb.dir = dir.to_string();
        config.rdb.auto_save = cfg.auto_save;
        config.rdb.save_rules = cfg.save_rules.clone();
        config.aof.enabled = cfg.appendonly;
        config.aof.dir = dir.to_string();
        config.aof.fsync_policy = match cfg.fsync { 0 => ferrous::storage::aof::FsyncPolicy::Always, 1 => ferrous::storage::aof::FsyncPolicy::EverySecond, _ => ferrous::storage::aof::FsyncPolicy::No };
        let before: Vec<bool> = w.threads.iter().map(|t| t.state != TState::Free).collect();
        w.booting = true;
        world::log_event(&format!("boot inst {}", id));
        let res = std::panic::catch_unwind(std::panic::AssertUnwindSafe(|| ferrous::Server::from_config(config)));
        g().booting = false;
        let new_threads: Vec<usize> = (0..MAX_THREADS).filter(|&i| !before[i] && g().threads[i].state != TState::Free).collect();
        let mut server = match res {
            Ok(Ok(s)) => s,
            Ok(Err(e)) => { for &t in &new_threads { g().threads[t].state = TState::Frozen; } return Err(format!("from_config error: {}", e)); }
            Err(p) => {
                for &t in &new_threads { g().threads[t].state = TState::Frozen; }
                let msg = p.downcast_ref::<String>().cloned().or_else(|| p.downcast_ref::<&str>().map(|s| s.to_string())).unwrap_or_default();
                return Err(format!("from_config panicked: {}", msg));
            }
        };
        let sweeper_tid = *new_threads.first().ok_or("no sweeper thread")?;
        g().threads[sweeper_tid].kind = Kind::Sweeper;
        let monitor_tid = new_threads.get(1).copied();
        if let Some(m) = monitor_tid { g().threads[m].kind = Kind::Monitor; }
        let (storage, blocking, pubsub, rdb) = server.verif_handles();
        let before2: Vec<bool> = g().threads.iter().map(|t| t.state != TState::Free).collect();
        std::thread::Builder::new().stack_size(8 << 20).spawn(move || { let _ = server.run(); }).map_err(|e| e.to_string())?;
        let server_tid = (0..MAX_THREADS).find(|&i| !before2[i] && g().threads[i].state != TState::Free).ok_or("server thread not registered")?;
        g().threads[server_tid].kind = Kind::Server;
        self.instances.push(Instance { id, dir: dir.to_string(), server_tid, sweeper_tid, monitor_tid, storage, blocking, pubsub, rdb, turns: 0, cfg: cfg.clone() });
        // let every new thread run to its first blocking point (sweeper and monitor go to sleep)
        self.run_bg(id);
        Ok(id)
    }

    // ---------------------------------------------------------------------------------------
    // clients

    pub fn connect(&mut self, inst: usize) -> usize { self.connect_buf(inst, 0) }

    /// `bufsize` > 0 sets SO_SNDBUF/SO_RCVBUF on both ends (to reach the server's partial-write path).
    pub fn connect_buf(&mut self, inst: usize, bufsize: usize) -> usize {
        let mut sv = [0i32; 2];
        let r = unsafe { sc6(raw::SYS_SOCKETPAIR, libc::AF_UNIX as i64, (libc::SOCK_STREAM | libc::SOCK_NONBLOCK | libc::SOCK_CLOEXEC) as i64, 0, sv.as_mut_ptr() as i64, 0, 0) };
        assert!(r == 0, "socketpair failed {}", r);
        if bufsize > 0 {
            let v = bufsize as i32;
            for fd in sv {
                for opt in [libc::SO_SNDBUF, libc::SO_RCVBUF] {
                    unsafe { sc6(raw::SYS_SETSOCKOPT, fd as i64, libc::SOL_SOCKET as i64, opt as i64, &v as *const i32 as i64, 4, 0); }
                }
            }
        }
        let w = g();
        let conn = w.conns.len();
        w.conns.push(ConnLog { recvs: Vec::new(), consumed: 0, sent: 0, server_fd: sv[1] });
        // the server end must be blocking-by-default like an accepted TCP socket; ferrous sets O_NONBLOCK itself
        unsafe { let fl = libc::fcntl(sv[1], libc::F_GETFL); libc::fcntl(sv[1], libc::F_SETFL, fl & !libc::O_NONBLOCK); }
        w.accept_q[inst].push_back((sv[1], conn));
        world::log_event(&format!("connect c{} inst {}", conn, inst));
        self.clients.push(Client { conn, inst, fd: sv[0], rx: Vec::new(), eof: false, reset: false, closed: false, total_rx: 0, total_tx: 0 });
        self.clients.len() - 1
    }

    /// Write as much of `b` as the socket takes; returns the number of bytes written.
    pub fn write(&mut self, c: usize, b: &[u8]) -> usize {
        let cl = &mut self.clients[c];
        if cl.closed || b.is_empty() { return 0; }
        let mut done = 0;
        while done < b.len() {
            let r = unsafe { sc6(raw::SYS_SENDTO, cl.fd as i64, b[done..].as_ptr() as i64, (b.len() - done) as i64, (libc::MSG_DONTWAIT | libc::MSG_NOSIGNAL) as i64, 0, 0) };
            if r > 0 { done += r as usize; } else if r == -(libc::EINTR as i64) { continue; } else {
                if r != -(libc::EAGAIN as i64) { cl.reset = true; }
                break;
            }
        }
        cl.total_tx += done as u64;
        world::log_bytes(&format!("cwrite c{}", cl.conn), &b[..done]);
        done
    }

    /// Drain everything the server has sent to client `c` into its rx buffer.
    pub fn read(&mut self, c: usize) -> usize {
        let cl = &mut self.clients[c];
        if cl.closed { return 0; }
        let mut buf = [0u8; 16384];
        let mut total = 0;
        loop {
            let r = unsafe { sc6(raw::SYS_RECVFROM, cl.fd as i64, buf.as_mut_ptr() as i64, buf.len() as i64, libc::MSG_DONTWAIT as i64, 0, 0) };
            if r > 0 { cl.rx.extend_from_slice(&buf[..r as usize]); total += r as usize; world::log_bytes(&format!("cread c{}", cl.conn), &buf[..r as usize]); }
            else if r == 0 { if !cl.eof { world::log_event(&format!("ceof c{}", cl.conn)); } cl.eof = true; break; }
            else if r == -(libc::EINTR as i64) { continue; }
            else if r == -(libc::EAGAIN as i64) { break; }
            else { if !cl.reset { world::log_event(&format!("creset c{} {}", cl.conn, -r)); } cl.reset = true; cl.eof = true; break; }
        }
        cl.total_rx += total as u64;
        total
    }

    /// Read at most `max` bytes (slow reader).
    pub fn read_some(&mut self, c: usize, max: usize) -> usize {
        let cl = &mut self.clients[c];
        if cl.closed || max == 0 { return 0; }
        let mut buf = vec![0u8; max];
        let r = unsafe { sc6(raw::SYS_RECVFROM, cl.fd as i64, buf.as_mut_ptr() as i64, max as i64, libc::MSG_DONTWAIT as i64, 0, 0) };
        if r > 0 { cl.rx.extend_from_slice(&buf[..r as usize]); cl.total_rx += r as u64; world::log_bytes(&format!("cread c{}", cl.conn), &buf[..r as usize]); r as usize }
        else { if r == 0 { cl.eof = true; } 0 }
    }

    pub fn close(&mut self, c: usize, how: CloseHow) {
        let cl = &mut self.clients[c];
        if cl.closed { return; }
        world::log_event(&format!("cclose c{} {:?}", cl.conn, how));
        match how {
            CloseHow::Close => { unsafe { raw::sc3(raw::SYS_CLOSE, cl.fd as i64, 0, 0); } cl.closed = true; }
            CloseHow::HalfClose => { unsafe { raw::sc3(raw::SYS_SHUTDOWN, cl.fd as i64, libc::SHUT_WR as i64, 0); } }
        }
    }

    pub fn set_recv_clamp(&mut self, c: usize, n: usize) {
        let fd = g().conns[self.clients[c].conn].server_fd;
        g().fds[fd as usize].recv_max = n;
    }
    pub fn set_send_clamp(&mut self, c: usize, n: usize) {
        let fd = g().conns[self.clients[c].conn].server_fd;
        g().fds[fd as usize].send_max = n;
    }

    /// Drop the not yet fired transient outcomes armed on one client's connection.
    pub fn disarm_conn(&mut self, client: usize) {
        let conn = self.clients[client].conn;
        let before = g().armed.len();
        g().armed.retain(|a| a.fired || a.conn != conn);
        if g().armed.len() != before { world::log_event(&format!("disarm conn {}", conn as i64)); }
    }
    pub fn arm(&mut self, inst: usize, op: Op, conn: Option<usize>, class: Option<FileClass>, nth: u64, action: Action) {
        let conn = conn.map(|c| self.clients[c].conn).unwrap_or(NONE);
        g().armed.push(Armed { instance: inst, op, conn, class, countdown: nth, action, fired: false });
        world::log_event(&format!("arm inst {} {:?} conn {} {:?} nth {} {:?}", inst, op, conn as i64, class, nth, action));
    }

    // ---------------------------------------------------------------------------------------
    // time

    pub fn advance(&mut self, ns: u64) {
        let to = g().mono.saturating_add(ns);
        world::log_event(&format!("advance {} -> {}", ns, to));
        world::set_mono(to);
        if self.bg_eager { for i in 0..self.instances.len() { self.run_bg(i); } }
    }
    /// Step the realtime clock by `delta` (may be negative) without touching the monotonic one.
    pub fn step_real(&mut self, delta: i64) {
        g().real_off += delta;
        world::log_event(&format!("step-real {}", delta));
    }

    // ---------------------------------------------------------------------------------------
    // scheduling

    pub fn thread_state(&self, tid: usize) -> TState { g().threads[tid].state }
    pub fn is_runnable(&self, tid: usize) -> bool { matches!(g().threads[tid].state, TState::Runnable | TState::New) }
    pub fn instance_alive(&self, inst: usize) -> bool {
        !matches!(g().threads[self.instances[inst].server_tid].state, TState::Frozen | TState::Exited)
    }
    pub fn threads_of(&self, inst: usize) -> Vec<usize> {
        (0..MAX_THREADS).filter(|&i| g().threads[i].instance == inst && !matches!(g().threads[i].state, TState::Free)).collect()
    }
    pub fn bg_threads(&self, inst: usize) -> Vec<usize> {
        let s = self.instances.get(inst).map(|i| i.server_tid).unwrap_or(NONE);
        self.threads_of(inst).into_iter().filter(|&t| t != s).collect()
    }
    /// Threads spawned after boot (savers, exit thread, rewrite stub) that have not finished.
    pub fn spawned_live(&self, inst: usize) -> Vec<usize> {
        self.threads_of(inst).into_iter().filter(|&t| g().threads[t].kind == Kind::Other && !matches!(g().threads[t].state, TState::Exited | TState::Frozen)).collect()
    }

    /// Run one quantum of thread `tid`: until it reaches a site in `always`, the `budget`-th site
    /// in `counted`, sleeps, blocks, or exits.
    pub fn step(&mut self, tid: usize, always: u32, counted: u32, budget: i64) -> Option<Reason> {
        let t = &mut g().threads[tid];
        t.mask = (always & 0xffff) | ((counted & 0xffff) << 16);
        t.budget = budget;
        self.quanta += 1;
        let r = world::run_thread(tid);
        if let Some(r) = r { world::log_event(&format!("q t{} {:?}", tid, r)); }
        r
    }

    /// Run all runnable background threads of `inst` to their next blocking point, in thread order.
    /// Returns false on watchdog expiry.
    pub fn run_bg(&mut self, inst: usize) -> bool {
        loop {
            let mut progressed = false;
            for t in self.bg_threads(inst).into_iter().chain(self.unowned_new_threads(inst)) {
                if self.bg_manual.contains(&t) { continue; }
                let mut guard = 0;
                while self.is_runnable(t) {
                    match self.step(t, 0, 0, 0) { None => return false, Some(_) => {} }
                    progressed = true;
                    guard += 1;
                    if guard > 100_000 { return false; }
                }
            }
            if !progressed { return true; }
        }
    }
    fn unowned_new_threads(&self, inst: usize) -> Vec<usize> {
        if self.instances.len() > inst { return vec![]; }
        // during boot the instance record does not exist yet
        (0..MAX_THREADS).filter(|&i| g().threads[i].instance == inst && matches!(g().threads[i].state, TState::New | TState::Runnable)).collect()
    }

    /// One server loop turn of instance `inst`.
    pub fn turn(&mut self, inst: usize) -> TurnOutcome {
        let server = self.instances[inst].server_tid;
        let w = g();
        let io0 = w.n_accept + w.n_recv + w.n_send + w.n_disk;
        let sh0 = w.site_hits[site::SHARD as usize];
        let mut guard = 0u32;
        loop {
            guard += 1;
            if guard > 200_000 { return TurnOutcome::Hang; }
            if self.bg_eager { if !self.run_bg(inst) { return TurnOutcome::Hang; } }
            match g().threads[server].state {
                TState::Sleeping { until } => {
                    // the server sleeps (idle back-off, or write back-off because a client's socket is
                    // full): time passes, and prompt clients read what has been sent to them so far
                    if self.auto_drain { for c in 0..self.clients.len() { self.read(c); } }
                    world::set_mono(until);
                    continue;
                }
                TState::Futex { deadline, .. } => {
                    // blocked on a lock or condvar: somebody else of this instance must run
                    let others: Vec<usize> = self.bg_threads(inst).into_iter().filter(|&t| self.is_runnable(t)).collect();
                    if let Some(&t) = others.first() {
                        let bud = 1 + self.sched_draw_const(4);
                        if self.step(t, 0, M_SHARD | M_RDB_KEY | M_SWEEP_COLLECTED, bud).is_none() { return TurnOutcome::Hang; }
                        continue;
                    }
                    // nobody runnable: the earliest timer decides
                    let next = self.earliest_timer(inst).or(deadline);
                    match next { Some(t) => { world::set_mono(t); continue; } None => return TurnOutcome::Deadlock }
                }
                TState::Exited => return TurnOutcome::ServerExited,
                TState::Frozen | TState::Free => return TurnOutcome::Dead,
                TState::Runnable | TState::New => {}
            }
            let preempt = self.preempt_permille > 0 && (self.sched_draw(1000) as u32) < self.preempt_permille;
            let (counted, budget) = if preempt { (M_SHARD, 1 + self.sched_draw(6) as i64) } else { (0, 0) };
            match self.step(server, M_TURN, counted, budget) {
                None => return TurnOutcome::Hang,
                Some(Reason::Hook { site: s, a, .. }) if s == site::TURN => {
                    self.instances[inst].turns += 1;
                    self.turns_total += 1;
                    let w = g();
                    let io = w.n_accept + w.n_recv + w.n_send + w.n_disk - io0;
                    let shard = w.site_hits[site::SHARD as usize] - sh0;
                    return TurnOutcome::Turn { did_work: a != 0, io, shard };
                }
                Some(Reason::Hook { .. }) => {
                    // pre-empted at a storage-lock acquisition: let background threads in
                    self.interleave_bg(inst);
                }
                Some(Reason::Sleep) | Some(Reason::FutexWait) | Some(Reason::None) => {}
                Some(Reason::Exit) => return TurnOutcome::ServerExited,
                Some(Reason::ProcExit { code }) => return TurnOutcome::ProcExit(code),
                Some(Reason::Crashed) => return TurnOutcome::Crashed,
            }
        }
    }
    fn sched_draw_const(&mut self, n: u64) -> i64 { self.sched_draw(n) as i64 }

    fn earliest_timer(&self, inst: usize) -> Option<u64> {
        let mut best = None;
        for t in self.threads_of(inst) {
            let d = match g().threads[t].state { TState::Sleeping { until } => Some(until), TState::Futex { deadline, .. } => deadline, _ => None };
            if let Some(d) = d { if best.map_or(true, |b| d < b) { best = Some(d); } }
        }
        best
    }

    /// While the server is parked mid-turn, give runnable background threads a few quanta.
    fn interleave_bg(&mut self, inst: usize) {
        let n = self.sched_draw(4);
        for _ in 0..n {
            let cands: Vec<usize> = self.bg_threads(inst).into_iter().filter(|&t| self.is_runnable(t)).collect();
            if cands.is_empty() { return; }
            let t = cands[self.sched_draw(cands.len() as u64) as usize];
            let budget = 1 + self.sched_draw(4) as i64;
            if self.step(t, 0, M_SHARD | M_RDB_KEY | M_SWEEP_COLLECTED, budget).is_none() { return; }
        }
    }

    /// Run turns until two consecutive idle ones (no I/O, no storage access); None if not reached.
    pub fn settle(&mut self, inst: usize, max_turns: usize) -> Option<usize> {
        let mut idle = 0;
        for n in 0..max_turns {
            match self.turn(inst) {
                TurnOutcome::Turn { io, shard, .. } => { if io == 0 && shard == 0 { idle += 1; if idle >= 2 { return Some(n + 1); } } else { idle = 0; } }
                _ => return None,
            }
        }
        None
    }

    /// Mark an instance as crashed (process killed at a turn boundary).
    pub fn kill(&mut self, inst: usize) {
        world::log_event(&format!("kill inst {}", inst));
        world::freeze_instance(inst);
    }
}
