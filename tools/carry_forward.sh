#!/bin/bash
# Carry every seeded patch forward to the current /repo HEAD with a 3-way apply in the scratch worktree.
WT=/tmp/wt/confirm
[ -d $WT ] || git -C /repo worktree add --detach $WT HEAD >/dev/null 2>&1
cd $WT && git reset -q --hard && git checkout -q --detach $(git -C /repo rev-parse HEAD)
for d in /verif/seeded/*/; do id=$(basename $d); [ -f $d/patch.diff ] || continue
  git reset -q --hard
  if git apply --3way $d/patch.diff >/tmp/3way.log 2>&1 && ! git diff HEAD | grep -q '^+<<<<<<<\|^+>>>>>>>'; then
    git diff HEAD > /tmp/rebased.diff
    if ! cmp -s /tmp/rebased.diff $d/patch.diff; then [ -f $d/patch.as-delivered.diff ] || cp $d/patch.diff $d/patch.as-delivered.diff; cp /tmp/rebased.diff $d/patch.diff; echo "$id: carried forward"; fi
  else echo "$id: CONFLICT ($(head -1 /tmp/3way.log))"; fi
done
git reset -q --hard
