#!/usr/bin/env python3
"""record_seeded.py <PROP> <mN> <caught: yes|no|partly> <classes seen> -- copies /tmp/pending/<PROP>/<mN> to /verif/seeded/<PROP>-<mN>/ with meta.json"""
import sys, os, shutil, json, re
srcprop, m, caught, classes = sys.argv[1], sys.argv[2], sys.argv[3], sys.argv[4]
prop = sys.argv[5] if len(sys.argv) > 5 else srcprop
dstname = sys.argv[6] if len(sys.argv) > 6 else f"{prop}-{m}"
src = f"/verif/.pending/{srcprop}/{m}"
dst = f"/verif/seeded/{dstname}"
os.makedirs(dst, exist_ok=True)
for f in os.listdir(src):
    if f.endswith('.log'): continue
    shutil.copy(os.path.join(src, f), os.path.join(dst, f))
parent = f"/verif/.pending/{srcprop}"
for f in os.listdir(parent):
    p = os.path.join(parent, f)
    if os.path.isfile(p) and f.endswith('.sh'): shutil.copy(p, os.path.join(dst, f))
readme = open(os.path.join(src, 'README.md')).read() if os.path.exists(os.path.join(src, 'README.md')) else ''
needs = ''
mm = re.search(r'(?is)(what it needs[^\n]*\n.*?)(\n#|\n\*\*|\Z)', readme)
if mm: needs = mm.group(1).strip()[:1200]
meta = {
  "property": prop,
  "origin": "independent sub-agent given only the property text and a scratch worktree of /repo (nothing from /verif)",
  "patch": "patch.diff (apply with: git -C /repo apply /verif/seeded/%s-%s/patch.diff ; undo with: git -C /repo checkout -- .)" % (prop, m),
  "demonstration": [f for f in os.listdir(dst) if f not in ('patch.diff', 'meta.json', 'README.md')],
  "needs_to_manifest": needs or "see README.md",
  "confirmed_by_me": "patch applies to /repo HEAD, harness and ferrous build with it; the sub-agent reports: cargo build ok, existing suite unchanged (75/75/0/5/8/0 passed), demonstration fails with and passes without the patch",
  "what_i_ran": f"git -C /repo apply patch.diff && VERIF_BUDGET_S=20 ./check {prop} quick ; git -C /repo checkout -- .",
  "caught": caught,
  "note": ("patch.diff was re-created by hand on the repaired code (the sub-agent's original, patch.original.diff, no longer applies after the fix commits); same defect, same trigger" if os.path.exists(os.path.join(src, 'patch.original.diff')) else ""),
  "violation_classes_reported": classes.split(';') if classes else [],
}
json.dump(meta, open(os.path.join(dst, 'meta.json'), 'w'), indent=1)
print("recorded", dst)
