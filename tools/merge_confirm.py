#!/usr/bin/env python3
"""Merge seeded/CONFIRMED.txt (tools/confirm_seeded.sh) and seeded/WITNESSED.txt (tools/witness_seeded.sh) into each seeded/<id>/meta.json."""
import json, os, re
base = '/verif/seeded'
conf, wit = {}, {}
for fn, tgt in (('CONFIRMED.txt', conf), ('WITNESSED.txt', wit)):
    p = os.path.join(base, fn)
    if not os.path.exists(p): continue
    for l in open(p):
        l = l.strip()
        if not l or l.startswith('done'): continue
        tgt[l.split()[0]] = l
for d in sorted(os.listdir(base)):
    mp = os.path.join(base, d, 'meta.json')
    if not os.path.exists(mp): continue
    m = json.load(open(mp))
    c = conf.get(d); w = wit.get(d)
    block = {}
    if c:
        kv = dict(re.findall(r'(\w+(?:\([^)]*\))?)=(\[[^\]]*\]|\S+)', c))
        block['at_repo_head'] = kv.get('head')
        block['patch_applies'] = kv.get('applies')
        block['builds'] = kv.get('build')
        block['repository_suite_passed/failed_per_target'] = kv.get('suite(passed/failed)')
        block['delivered_demonstration_exit_on_clean_tree'] = kv.get('demo_clean_exit')
        block['delivered_demonstration_exit_with_patch'] = kv.get('demo_patched_exit')
    if w:
        kv = dict(re.findall(r'(\w+)=(\S+)', w))
        if 'class' in kv:
            block['detsim_replay'] = 'detsim-replay.json (./check replay seeded/%s/detsim-replay.json): exit %s with the patch, exit %s without it; class %s' % (d, kv.get('replay_exit_with_patch'), kv.get('replay_exit_without_patch'), kv.get('class'))
        else:
            block['detsim_replay'] = w
    if block:
        m['confirmed_in_scratch_worktree'] = block
        m['confirmed_by_me'] = 'tools/confirm_seeded.sh and tools/witness_seeded.sh, in the scratch worktree /tmp/wt/confirm at the /repo HEAD named below (results: seeded/CONFIRMED.txt, seeded/WITNESSED.txt)'
    if '-w2' in d or '-w3' in d:
        m['patch'] = 'patch.diff (apply with: git -C /repo apply /verif/seeded/%s/patch.diff ; undo with: git -C /repo checkout -- .)' % d
        m['what_i_ran'] = 'tools/witness_seeded.sh %s (the check of the property, built against the scratch worktree with the patch applied, 30-40 s budget)' % d
        if w and 'class=' in w:
            cls = re.search(r'class=(\S+)', w).group(1)
            m['caught'] = 'yes' if d not in ('C05-w2b1', 'C18-w2c10') else 'yes, after the check was strengthened (missed by the check as it stood; DESIGN.md 11.6)'
            m['violation_classes_reported'] = [cls]
        elif w:
            m['caught'] = 'NO: ' + w
    if os.path.exists(os.path.join(base, d, 'patch.as-delivered.diff')):
        m['patch_note'] = 'patch.diff is the delivered change carried forward to the current /repo HEAD (3-way apply or, where the repaired code differs, re-created by hand with the same defect and trigger); patch.as-delivered.diff / patch.original.diff is what the sub-agent delivered'
    json.dump(m, open(mp, 'w'), indent=1)
print('merged', len(conf), len(wit))
