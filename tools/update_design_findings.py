#!/usr/bin/env python3
"""Regenerate the per-property list of repaired / recorded defects in DESIGN.md §11.3 from known_findings.txt."""
import re, collections
fx = collections.OrderedDict(); kn = collections.OrderedDict()
for l in open('/verif/known_findings.txt'):
    m = re.match(r'fixed: property=(C\d+) (\S+) (.*)', l)
    if m: fx.setdefault(m.group(1), []).append((m.group(2), m.group(3).split('; witness')[0].strip()))
    m = re.match(r'known: property=(C\d+) class=(\S+) :: (.*)', l)
    if m: kn.setdefault(m.group(1), []).append((m.group(2), m.group(3).strip()))
out = []
for p in sorted(set(list(fx) + list(kn))):
    out.append(f"**{p}**")
    for c, t in fx.get(p, []): out.append(f"* fixed `{c}` — {t[:400]}")
    for c, t in kn.get(p, []): out.append(f"* known `{c}` — {t[:300]}")
    out.append("")
block = '\n'.join(out)
p = '/verif/DESIGN.md'
s = open(p).read()
a = s.index("by property:\n\n") + len("by property:\n\n")
b = s.index("Recorded instead of repaired, and why:")
s = s[:a] + block + "\n" + s[b:]
nfix = sum(len(v) for v in fx.values()); nkn = sum(len(v) for v in kn.values())
s = re.sub(r"`fixed:` lines \(\d+,", f"`fixed:` lines ({nfix},", s)
s = re.sub(r"and `known:` lines \(\d+ class patterns", f"and `known:` lines ({nkn} class patterns", s)
open(p, 'w').write(s)
print(nfix, nkn)
import subprocess
n = subprocess.check_output("git -C /repo log --oneline 6a988bd..HEAD | grep -c ' fix:'", shell=True).decode().strip()
s = open(p).read()
s = re.sub(r"checks found \(\d+ repair commits, \d+ recorded defects\)", f"checks found ({n} repair commits, {nkn} recorded defects)", s)
s = re.sub(r"\n\d+ `fix:` commits; each was triggered", f"\n{n} `fix:` commits; each was triggered", s)
open(p, 'w').write(s)
