#!/bin/sh
# usage: run_mut.sh PROP mN CHECK [budget]
P=$1; M=$2; C=$3; B=${4:-20}
cd /verif
if [ -n "$(git -C /repo status --porcelain)" ]; then echo "/repo not clean"; exit 1; fi
if ! git -C /repo apply --check /verif/.pending/$P/$M/patch.diff 2>/dev/null; then echo "=== $P $M: PATCH DOES NOT APPLY"; exit 0; fi
git -C /repo apply --3way /verif/.pending/$P/$M/patch.diff
echo "=== $P $M vs $C"
VERIF_BUDGET_S=$B ./check $C quick 2>&1 | grep -v "^KNOWN" | cut -c1-260 | head -9
git -C /repo reset -q --hard
