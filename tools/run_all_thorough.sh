#!/bin/sh
# runs every registered check at the thorough tier, one after the other; log in /verif/thorough.log
cd /verif
: > thorough.log
for c in C01 C02 C03 C04 C05 C06 C07 C08 C09 C10 C11 C12 C13 C14 C15 C16 C17 C18 C19 C20; do
  echo "=== $c $(date -u +%H:%M:%S)" >> thorough.log
  ./check $c thorough 2>&1 | grep -v "^KNOWN-FINDING" | tail -6 >> thorough.log
  echo "exit=$?" >> thorough.log
done
echo "=== done $(date -u +%H:%M:%S)" >> thorough.log
