#!/bin/bash
# For every seeded change: run the property's check against a scratch worktree that has the change applied
# (a side build of detsim pointing at /tmp/wt/confirm, output under /tmp/dsx-out), keep the first minimised
# replay file as seeded/<id>/detsim-replay.json, and confirm that this replay passes on the clean worktree.
WT=${WT:-/tmp/wt/confirm}; DSX=${DSX:-/tmp/dsx}; DSXOUT=${DSXOUT:-/tmp/dsx-out}; L=${LANE:-a}; OUT=/verif/seeded/WITNESSED.txt
ONLY="$*"
for d in /verif/seeded/*/; do
  id=$(basename $d); chk=${id%%-*}
  [ -f $d/patch.diff ] || continue
  if [ -n "$ONLY" ] && ! echo " $ONLY " | grep -q " $id "; then continue; fi
  grep -q '"caught": "n/a' $d/meta.json && { echo "$id n/a (neutralised by a repair)" >> $OUT; continue; }
  cd $WT && git reset -q --hard && git apply $d/patch.diff || { echo "$id patch does not apply" >> $OUT; continue; }
  (cd $DSX && cargo build --release --offline >/tmp/dsx_build_$L.log 2>&1) || { echo "$id build failed" >> $OUT; continue; }
  rm -rf $DSXOUT/replays/$chk
  VERIF_BUDGET_S=${BUDGET:-25} VERIF_JOBS=${JOBS:-6} $DSX/target/release/detsim check $chk quick > /tmp/dsx_run_$L.log 2>&1
  rp=$(grep -m1 "^VIOLATION" /tmp/dsx_run_$L.log | sed 's/.*replay=//')
  if [ -z "$rp" ] || [ ! -f "$rp" ]; then echo "$id NOT CAUGHT within budget: $(tail -1 /tmp/dsx_run_$L.log | cut -c1-120)" >> $OUT; cd $WT && git reset -q --hard; continue; fi
  cls=$(grep -A1 -m1 "^VIOLATION" /tmp/dsx_run_$L.log | grep "class=" | sed 's/.*class=\([^ ]*\).*/\1/')
  cp $rp $d/detsim-replay.json
  $DSX/target/release/detsim replay $d/detsim-replay.json > /tmp/dsx_rep1_$L.log 2>&1; with=$?
  cd $WT && git reset -q --hard
  (cd $DSX && cargo build --release --offline >/tmp/dsx_build_$L.log 2>&1)
  $DSX/target/release/detsim replay $d/detsim-replay.json > /tmp/dsx_rep2_$L.log 2>&1; without=$?
  echo "$id check=$chk class=$cls replay_exit_with_patch=$with replay_exit_without_patch=$without" >> $OUT
done
cd $WT && git reset -q --hard
echo "done $(date -u +%H:%M)" >> $OUT
