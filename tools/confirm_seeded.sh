#!/bin/bash
# Independent confirmation of every seeded change in a scratch worktree of /repo (outside /repo and /verif):
#   the demonstration passes on the clean tree, the patch applies and builds, the repository's own
#   test suite passes with it, and the demonstration fails with it. Result lines go to seeded/CONFIRMED.txt.
WT=${WT:-/tmp/wt/confirm}
OUT=/verif/seeded/CONFIRMED.txt
ONLY="$*"
if [ ! -d $WT ]; then git -C /repo worktree add --detach $WT HEAD >/dev/null 2>&1 || exit 2; fi
cd $WT || exit 2
git checkout -q --detach $(git -C /repo rev-parse HEAD)
HEAD=$(git rev-parse --short HEAD)
run_demo() { # $1 = seeded dir ; prints exit status of the demonstration
  local d=$1
  rm -rf $WT/out $WT/tests/demo_test.rs
  if [ -f $d/run_demo.sh ] && grep -q 'DEMO=\$1' $d/run_demo.sh; then
    # runner that lives one level up and takes the demonstration as its argument
    mkdir -p $WT/out/m && cp -r $d/* $WT/out/m/ && cp $d/run_demo.sh $WT/out/run_demo.sh && (cd $WT && timeout 600 bash out/run_demo.sh out/m/demo.py >/tmp/confirm_demo.log 2>&1); echo $?
  elif [ -f $d/run_demo.sh ]; then
    # (second-wave runners name their own directory, out/m<N>, relative to the worktree)
    local sub=$(grep -o 'out/m[0-9]*' $d/run_demo.sh | head -1 | sed 's|out/||'); [ -z "$sub" ] && sub=m
    mkdir -p $WT/out/$sub && cp -r $d/* $WT/out/$sub/ && (cd $WT/out/$sub && timeout 600 bash ./run_demo.sh >/tmp/confirm_demo.log 2>&1); echo $?
  elif [ -f $d/demo_test.rs ]; then
    cp $d/demo_test.rs $WT/tests/demo_test.rs && (cd $WT && timeout 900 cargo test --offline --test demo_test >/tmp/confirm_demo.log 2>&1); echo $?
  elif [ -f $d/run.sh ]; then
    mkdir -p $WT/out/m && cp -r $d/* $WT/out/m/ && (cd $WT/out/m && timeout 600 bash ./run.sh >/tmp/confirm_demo.log 2>&1); echo $?
  else echo none; fi
}
for d in /verif/seeded/*/; do
  id=$(basename $d)
  [ -f $d/patch.diff ] || continue
  if [ -n "$ONLY" ] && ! echo " $ONLY " | grep -q " $id "; then continue; fi
  git checkout -q -- . ; rm -rf out tests/demo_test.rs
  clean=$(run_demo $d)
  rm -rf out tests/demo_test.rs; git checkout -q -- .
  if ! git apply --check $d/patch.diff 2>/dev/null; then echo "$id head=$HEAD applies=NO" >> $OUT; continue; fi
  git apply $d/patch.diff
  if cargo build --offline >/tmp/confirm_build.log 2>&1; then build=ok; else build=FAIL; fi
  suite=$(cargo test --workspace --no-fail-fast --offline 2>&1 | grep "test result" | awk '{print $4"/"$6}' | tr '\n' ' ')
  mut=$(run_demo $d)
  rm -rf out tests/demo_test.rs; git checkout -q -- .
  echo "$id head=$HEAD applies=yes build=$build suite(passed/failed)=[$suite] demo_clean_exit=$clean demo_patched_exit=$mut" >> $OUT
done
git checkout -q -- .
echo "done $(date -u +%H:%M)" >> $OUT
