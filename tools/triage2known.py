#!/usr/bin/env python3
"""Turn `VERIF_TRIAGE=1 ./check <ID> quick` output (TRIAGE lines) into candidate `known:` lines.
The output is reviewed by hand before anything is added to known_findings.txt."""
import sys, re
for line in sys.stdin:
    m = re.match(r'^TRIAGE (\d+) (\S+) :: (.*)$', line.rstrip('\n'))
    if not m: continue
    n, cls, detail = m.groups()
    prop = cls.split('/')[0]
    detail = detail.replace('\t', ' ')
    if len(detail) > 220: detail = detail[:220] + '...'
    print(f"known: property={prop} class={cls} :: {detail}")
