#!/usr/bin/env python3
"""Regenerates MANIFEST.json from the table below (kept in one place so it is always valid)."""
import json, subprocess
HOOK_COMMITS = ["008d02b", "f9c7333", "e6906e7"]
CHECKS = {
 "C01": ("exploration", "5.C01", "refinement of single-client command histories against an executable reference model, inside the deterministic whole-server simulation (virtual clock, scheduled sweeper thread, segmented transport)",
         "Seeded search over histories of string/key-space commands; every reply and, after every command, the complete stored dataset is compared with a Redis reference model evaluated at the exact virtual execution time. Exploration is the right level: the quantifier is over unbounded histories and argument values, which can only be sampled."),
}
CHECKS["C02"] = ("exploration", "5.C02", "refinement against a reference model with the virtual clock placed at chosen offsets around each deadline and the expiry sweeper thread scheduled by the simulator (eager / starved / parked between its collect and delete phases)",
  "Seeded search over TTL histories on all value types; the simulator owns the monotonic clock (exact deadline-d / deadline / deadline+d positions down to 1 ns) and decides when and how far the real sweeper thread runs, including holding it in the window between its scan and its deletions while client commands change the collected keys. Replies and the stored dataset incl. stored deadlines are compared with the model after every step. Exploration: schedules and histories are sampled, not enumerated.")
CHECKS["C03"] = ("exploration", "5.C03", "refinement of command histories against an executable reference model under per-seed process entropy (hash iteration orders, random picks)",
  "Seeded search over list/set/hash histories; replies compared with the model (unordered replies as multisets, random picks constrained to current members and then followed), stored dataset compared after every command. Histories and arguments are unbounded, so they are sampled.")
CHECKS["C04"] = ("exploration", "5.C04", "refinement against a reference model plus a structural invariant walk of the real skip list after every command, tower shapes varied by the entropy seed",
  "Seeded search over sorted-set histories with colliding scores; replies compared numerically with the model; after every command the real skip list is walked by verif_check_invariants (order, level subsequences, index/length agreement, no NaN) and its level-0 chain compared with the model. Sampled, not enumerated.")
CHECKS["C05"] = ("exploration", "5.C05", "seeded delivery schedules (segmentation, interleaving, small socket buffers, slow readers) and transient recv/send faults (EINTR, EAGAIN, short transfers) injected at the libc boundary of a simulated transport, reply stream decoded by an independent RESP reader and matched 1:1 against requests",
  "Seeded search over pipelines x segmentations x connection interleavings x reply-side flow control; oracle: exactly one well-formed reply per request in order, of the expected kind, with promptness checked at sync points where the client stops sending and waits. Segmentations are sampled (with forced alignment to the 8192-byte read size).")
CHECKS["C06"] = ("exploration", "5.C06", "hostile-input simulation: systematic boundary walk over the command table extracted from the source plus byte-level hostile frames, with panic/exit/deadlock/hang detection by the scheduler and an allocator seam",
  "Every server thread runs under the simulator, so a panic, exit(), deadlock (all threads futex-blocked) or hang (watchdog) is observed deterministically; the allocator seam records the largest single request and refuses absurd ones; a fresh connection must then be served and sentinel data be intact. The boundary walk is systematic over a stated finite catalogue (command x position x 50 values) spread over run indices; the rest is sampled.")
CHECKS["C17"] = ("exploration", "5.C17", "simulated multi-connection histories against a server booted with requirepass; systematic walk over the command table x 5 pipeline positions; side-effect oracle through the storage accessor and a control connection",
  "The whole command table (extracted from the source) is walked systematically over run indices in five positions and four segmentation styles; replies, unsolicited bytes on the unauthenticated socket, dataset, subscriber and replica tables are checked. Finite catalogue covered completely every 5*ceil(|table|/12) runs; segmentations and wrong passwords sampled.")
CHECKS["C20"] = ("exploration", "5.C20", "in-process simulation where the schedule is the chunking of the byte stream: exhaustive enumeration of short strings over the protocol alphabet under all split points, seeded generation beyond, allocator seam and panic capture",
  "All strings over a 21-symbol alphabet up to length 4 (quick) / 5 (thorough) are enumerated and fed under every single split point, byte-wise and in 3-way splits; frame trees of all RESP types are round-tripped; longer and mutated streams are sampled. The short-string part is exhaustive (evidence sets exhaustive=true when every slice ran), the rest is exploration.")
CHECKS["C07"] = ("exploration", "5.C07", "multi-connection simulation: requests of several connections delivered before the same loop turn, exact execution order reconstructed from the transport seam, sequential refinement with whole EXEC batches as single steps",
  "The simulator decides delivery order and segmentation of all connections; from the order of the server's reads it derives the exact order in which the single command thread executed every request, and checks every reply (each EXEC slot) and the dataset against the sequential model with per-connection transaction state. This is a linearizability check with the linearization point known from the seam instead of searched. Histories and interleavings are sampled.")
CHECKS["C08"] = ("exploration", "5.C08", "systematic walk of a finite WATCH scenario catalogue (writer template x key state x route) inside the multi-connection simulation, plus clock-driven expiry and blocked-client routes and random multi-watcher histories",
  "The catalogue of 50 writer templates x 8 key states x 10 routes is walked completely over run indices (evidence marks exhaustive when all rounds ran); the abort/no-abort verdict comes from the sequential model fed in the server's actual execution order. Expiry offsets, served blocking pops and random histories are sampled.")
CHECKS["C13"] = ("exploration", "5.C13", "multi-connection simulation with virtual-clock timeouts and disconnect injection; conservation, FIFO, promptness and residue oracles at quiescent points, registry read through a guarded accessor",
  "Seeded search over histories of 2-5 clients with blocking pops, pushes by every path, timeouts driven by the virtual clock to just before/at/after each deadline, and blocked clients disconnecting. The sequential model follows the server's actual execution order; at quiescent points (two idle loop turns) conservation of the element multiset, absence of stranded waiters and of leftover registrations are checked. Interleavings are sampled.")
CHECKS["C14"] = ("exploration", "5.C14", "multi-connection simulation of subscribers and publishers with exact execution order from the transport seam; per-subscriber expected frame sequences from a model with the harness' own glob matcher",
  "Seeded search over subscribe/unsubscribe/publish/disconnect histories; from the server's read order the exact sequence of acknowledgement and push frames per subscriber and every PUBLISH count is predicted and compared frame by frame; nothing may be missing or surplus at the end. Histories sampled.")
CHECKS["C15"] = ("exploration", "5.C15", "refinement of stream command histories against an ordered-map reference model inside the deterministic whole-server simulation, with the virtual wall clock (bursts within one millisecond, jumps backwards and forwards) owned by the simulator",
  "Seeded search over XADD (automatic and explicit ids around, ahead of and at the limits of the virtual clock) / XDEL / XTRIM / XRANGE / XREVRANGE / XREAD / XLEN histories with bounds resolved at execution time to stored ids and their neighbours; every reply and, after every command, the stored entry log, its last id and the duplicated lock-free counters are compared with the model. Histories, ids and clock behaviour are unbounded, so they are sampled.")
CHECKS["C16"] = ("exploration", "5.C16", "refinement of consumer-group histories against a model of one cursor and one pending map per group, plus a guarded consistency walk of the real pending indexes and counters after every command, under a simulated clock that controls idle times",
  "Seeded search over multi-consumer, multi-group histories (reads with COUNT/NOACK, acknowledgements, claims with idle thresholds against virtual time, administration commands, entries added and deleted in between); replies are compared with the model and the stored group state (both pending indexes, per-consumer counters, total, cursor) is read back through verif_check_consistency after every command. Histories are sampled, not enumerated.")
CHECKS["C18"] = ("exploration", "5.C18", "multi-connection simulation with exact execution order from the transport seam, fed to a 16-database reference model with per-connection selection; canonical dump of all 16 databases compared after every turn; model-independent value tagging",
  "Seeded search over connections moving among databases and running every command family on equal key names through all four execution paths (direct, MULTI/EXEC incl. queued SELECT, EVAL/EVALSHA, blocking pops completed later), WATCH across SELECT, FLUSHDB/FLUSHALL, invalid SELECTs and reconnects; replies, the 16-way dump and embedded database tags in returned values are checked. Histories are sampled.")
CHECKS["C19"] = ("exploration", "5.C19", "seeded cursor iterations driven through the simulated server with churn of other elements scheduled between successive calls; oracle over the recorded iteration (returned union vs. elements present throughout / ever present)",
  "Seeded search over key sets (0-400 elements, all types), COUNT/MATCH/TYPE options and interleavings of additions and deletions between SCAN/HSCAN/SSCAN/ZSCAN calls; completeness, soundness w.r.t. filters, reply shape and termination are decided over each recorded iteration. Key sets, options and interleavings are sampled.")
CHECKS["C09"] = ("exploration", "5.C09", "crash-restart simulation: the dataset is built through the real command path, SAVE, the simulated process is killed, virtual clocks advance by a chosen downtime, a fresh server instance is booted from the same simulated directory; canonical dumps before and after are compared",
  "Seeded search over datasets (all six types, sizes at every length-encoding boundary up to 70000 elements, binary / marker / integer-like strings, all score classes, stream id limits, 16 databases, TTLs around the downtime) and downtimes; the oracle compares the stored dataset of the restarted process with the one saved, incl. deadlines to clock granularity. Datasets are unbounded, so they are sampled with forced boundary values.")
CHECKS["C10"] = ("exploration", "5.C10", "fault injection at the libc disk boundary (errno, short write, crash before / after k bytes at the n-th open / write / rename of a save) with restart from the surviving directory; simulator-stepped background-save thread interleaved with client commands at guarded yield points (BGSAVE and saves started by the auto-save monitor thread); start-up from seeded damaged dump files under an allocation seam",
  "Seeded search over (F) the failure point and kind of one save, (S) interleavings of the snapshot thread's per-key steps with commands that change, re-type, expire and delete those keys, and (D) prefixes / byte corruptions of valid dumps. Oracles: the dump on disk is byte-identical after a failed save and always loads to exactly the previous or the new dataset; every (value, deadline) pair in a concurrent snapshot was held by that key at one recorded instant; damaged files never cause a panic, a hang or an allocation sized by a length field. Failure points are enumerated densely for the first operations and sampled beyond; interleavings and corruptions are sampled.")
CHECKS["C11"] = ("exploration", "5.C11", "multi-connection simulation with appendonly on; at checkpoints the AOF bytes on the simulated disk are parsed by an independent RESP reader and replayed into a second, fresh simulated server; canonical dumps of both instances are compared; transient AOF write faults injected at the libc boundary",
  "Seeded search over histories of the write-command catalogue through all execution paths (direct, MULTI/EXEC, EVAL/EVALSHA, immediate and served blocking pops), in one or two databases, with values that are not valid UTF-8, under all three fsync policies and with failing / short AOF writes; oracle: the AOF is a sequence of complete command frames and its replay yields the live dataset (values, presence of deadlines). Histories are sampled.")
CHECKS["C12"] = ("exploration", "5.C12", "differential twins inside one simulation: two simulated server instances kept in the same state, one executes each command wrapped in a script (call / pcall / KEYS form / EVALSHA), the other the command itself; replies after the RESP-Lua-RESP conversion and canonical dumps compared; literal-script conversion table, sandbox-escape scripts, binary KEYS/ARGV echo, partial-effect scripts, pipelined transfer scripts observed by a second connection",
  "Seeded search over the command streams of the model-based checks (strings/keys, lists/sets/hashes, sorted sets, streams: the whole argument space incl. edge values, wrong types, arities, binary data) in several databases; the twin oracle needs no model of the commands, only of the reply conversion. Command streams are sampled.")
NOT_APPLICABLE = []
def main():
    import json as _j
    ids = [_j.loads(l)["id"] for l in open("/verif/properties.jsonl")]
    for pid in ids:
        if pid not in CHECKS and not any(n["property_id"] == pid for n in NOT_APPLICABLE):
            NOT_APPLICABLE.append({"property_id": pid, "reason": "not claimed yet: the simulation check for this property is still under construction (the technique applies; see DESIGN.md section 5)"})
    checks = []
    for pid, (level, ref, technique, text) in sorted(CHECKS.items()):
        checks.append({
            "property_id": pid,
            "quick_cmd": f"./check {pid} quick",
            "thorough_cmd": f"./check {pid} thorough",
            "evidence_file": f"evidence/{pid}.json",
            "replay_cmd_template": "./check replay {path}",
            "engine": "detsim",
            "level_claimed": {"category": level, "text": text, "design_ref": ref},
            "level_note": "trusted base: the harness' own RESP codec and reference model (written from the Redis documentation, no Redis binary available), the libc interposition layer and baton scheduler of detsim (determinism re-checked on every run by executing a sample of seeds twice), the kernel's AF_UNIX sockets and tmpfs; known genuine defects are listed in known_findings.txt and reported as KNOWN-FINDING lines",
            "technique": "deterministic simulation with fault injection: " + technique,
        })
    m = {
        "version": 1,
        "setup_cmd": "./check setup",
        "hooks": {
            "guard": "cargo feature `verif` (ferrous/Cargo.toml [features] verif = [])",
            "enable": "the harness crate /verif/detsim depends on ferrous = { path = \"/repo\", features = [\"verif\"] }; ./check rebuilds it from /repo's working tree with cargo build --release --offline",
            "baseline_off_cmd": "cd /repo && cargo test --workspace --no-fail-fast --offline",
            "source_commits": HOOK_COMMITS,
            "add_only": True,
        },
        "engines": [{"name": "detsim", "path": "detsim", "serves_properties": sorted(CHECKS.keys()),
                     "kind_free_text": "deterministic whole-process simulator: real ferrous::Server threads under a baton scheduler, libc interposition for clocks/sleep/futex/entropy/sockets/files/exit, seeded workload+schedule+fault generation, one forked process per run, ddmin trace minimisation, replay files"}],
        "checks": checks,
        "notes": "exit 0 = held on everything explored (KNOWN-FINDING lines allowed), exit 1 = VIOLATION line with replay file, exit 2 = harness error. VERIF_SEED (default 1), VERIF_BUDGET_S, VERIF_JOBS, VERIF_MAX_RUNS are honoured.",
        "not_applicable": NOT_APPLICABLE,
    }
    json.dump(m, open("/verif/MANIFEST.json", "w"), indent=1)
    print("wrote MANIFEST.json with", len(checks), "checks")
main()
